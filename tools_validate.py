#!/opt/veriftools/pyvenv/bin/python3
import json, jsonschema, glob, sys
jsonschema.validate(json.load(open('/verif/MANIFEST.json')), json.load(open('/root/.vp/MANIFEST.schema.json')))
print('manifest valid')
es = json.load(open('/root/.vp/EVIDENCE.schema.json'))
for f in sorted(glob.glob('/verif/evidence/C*.json')):
    try:
        jsonschema.validate(json.load(open(f)), es); print(f, 'valid')
    except Exception as e:
        print(f, 'INVALID', str(e)[:300]); sys.exit(1)
