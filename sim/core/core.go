// Package core holds the run context shared by all checks: the tape, the event
// log (hashed into a schedule fingerprint), fault/probe counters, abstract-state
// coverage and the first violation.
package core

import (
	"fmt"
	"hash/fnv"
	"sort"
	"sync"
	"time"

	"verif/sim/tape"
)

// Violation is an oracle failure.
type Violation struct {
	Property string `json:"property"`
	Class    string `json:"class"` // stable identifier of the failing oracle / shape
	Msg      string `json:"msg"`
	Step     int    `json:"step"`
}

// Result summarises one simulated run.
type Result struct {
	Check       string         `json:"check"`
	Run         int            `json:"run"`
	Violation   *Violation     `json:"violation,omitempty"`
	Tape        []uint32       `json:"tape,omitempty"`
	Steps       int            `json:"steps"`
	SimNanos    int64          `json:"sim_ns"`
	Faults      map[string]int `json:"faults,omitempty"`
	Probes      map[string]int `json:"probes,omitempty"`
	Fingerprint uint64         `json:"fp"`
	States      []string       `json:"states,omitempty"`
	Nontrivial  bool           `json:"nontrivial"`
	Trace       []string       `json:"trace,omitempty"`
	Sample      string         `json:"sample,omitempty"`
	Knobs       map[string]any `json:"knobs,omitempty"`
	// Evals counts the cases evaluated inside this run when a run enumerates several (cut positions).
	Evals int `json:"evals,omitempty"`
}

// Ctx is handed to a check for one run (inside the bubble).
type Ctx struct {
	T     *tape.Tape
	Tier  string
	Check string
	// Seed and Run identify the run (for checks that enumerate, e.g. run index -> (base, cut position)).
	Seed int64
	Run  int
	// Trace makes Logf keep the text (replay / sample runs).
	Trace bool

	cmu        sync.Mutex // guards the counters (faults, probes, states)
	Step       int
	start      time.Time
	h          uint64
	trace      []string
	faults     map[string]int
	probes     map[string]int
	states     map[string]struct{}
	knobs      map[string]any
	viol       *Violation
	nontrivial bool
	sample     string
	cleanup    []func()
	endNanos   int64
	ended      bool
	evals      int
}

// AddEvals counts enumerated cases evaluated inside this run.
func (c *Ctx) AddEvals(n int) { c.evals += n }

// NewCtx creates a context; call inside the bubble so that start is fake time.
func NewCtx(check, tier string, t *tape.Tape, trace bool) *Ctx {
	return &Ctx{T: t, Tier: tier, Check: check, Trace: trace, start: time.Now(), h: 14695981039346656037,
		faults: map[string]int{}, probes: map[string]int{}, states: map[string]struct{}{}, knobs: map[string]any{}}
}

// Now returns simulated time since the start of the run.
func (c *Ctx) Now() time.Duration { return time.Since(c.start) }

// Logf appends an event to the schedule fingerprint (and to the trace when tracing).
// Arguments must be deterministic functions of the tape (no pointers, no crypto-random ids).
func (c *Ctx) Logf(format string, args ...any) {
	s := fmt.Sprintf(format, args...)
	f := fnv.New64a()
	_, _ = f.Write([]byte(s))
	c.h = (c.h ^ f.Sum64()) * 1099511628211
	if c.Trace {
		c.trace = append(c.trace, fmt.Sprintf("[%d t=%v] %s", c.Step, c.Now(), s))
	}
}

// Fault counts a fault that actually fired. (The counters may be touched from handler goroutines of the code
// under test as well as from the root goroutine, hence the lock; Logf and Failf belong to the root only.)
func (c *Ctx) Fault(kind string) {
	c.cmu.Lock()
	c.faults[kind]++
	c.nontrivial = true
	c.cmu.Unlock()
}

// Probe counts a rare-branch probe.
func (c *Ctx) Probe(name string) {
	c.cmu.Lock()
	c.probes[name]++
	c.cmu.Unlock()
}

// State records an abstract state visited.
func (c *Ctx) State(s string) {
	c.cmu.Lock()
	c.states[s] = struct{}{}
	c.cmu.Unlock()
}

// Knob records a swarm knob of this run.
func (c *Ctx) Knob(k string, v any) { c.knobs[k] = v }

// MarkNontrivial marks the run as non-trivial by the check's own rule.
func (c *Ctx) MarkNontrivial() { c.nontrivial = true }

// SetSample stores a human-readable description of the case explored.
func (c *Ctx) SetSample(s string) { c.sample = s }

// Failf records the first violation.
func (c *Ctx) Failf(class, format string, args ...any) {
	if c.viol != nil {
		return
	}
	c.viol = &Violation{Property: c.Check, Class: class, Msg: fmt.Sprintf(format, args...), Step: c.Step}
	if c.Trace {
		c.trace = append(c.trace, fmt.Sprintf("[%d t=%v] VIOLATION %s: %s", c.Step, c.Now(), class, c.viol.Msg))
	}
}

// Failed reports whether a violation was recorded.
func (c *Ctx) Failed() bool { return c.viol != nil }

// Violation returns the recorded violation.
func (c *Ctx) Violation() *Violation { return c.viol }

// Defer registers a cleanup that runs (LIFO) when the run ends, even on violation.
func (c *Ctx) Defer(f func()) { c.cleanup = append(c.cleanup, f) }

// RunCleanup runs the registered cleanups (inside the bubble) and freezes the simulated end time.
func (c *Ctx) RunCleanup() {
	if !c.ended {
		c.ended = true
		c.endNanos = int64(c.Now())
	}
	for i := len(c.cleanup) - 1; i >= 0; i-- {
		c.cleanup[i]()
	}
	c.cleanup = nil
}

// Finish builds the result.
func (c *Ctx) Finish(run int) *Result {
	st := make([]string, 0, len(c.states))
	for s := range c.states {
		st = append(st, s)
	}
	sort.Strings(st)
	r := &Result{Check: c.Check, Run: run, Violation: c.viol, Steps: c.Step, SimNanos: c.endNanos,
		Faults: c.faults, Probes: c.probes, Fingerprint: c.h, States: st, Nontrivial: c.nontrivial,
		Sample: c.sample, Knobs: c.knobs, Evals: c.evals}
	if c.Trace {
		r.Trace = c.trace
	}
	if c.viol != nil || c.Trace {
		r.Tape = c.T.Recorded()
	}
	return r
}

// CheckFunc is one simulated run of a check (executed inside a synctest bubble).
type CheckFunc func(c *Ctx)

// Spec describes a registered check.
type Spec struct {
	ID string
	Fn CheckFunc
	// HangIsViolation: a bubble deadlock / wall-clock hang is a violation of this property
	// (termination properties) rather than a harness error.
	HangIsViolation bool
	// Runs per tier (defaults when zero).
	QuickRuns, ThoroughRuns int
}

var registry = map[string]*Spec{}

// Register adds a check.
func Register(s *Spec) { registry[s.ID] = s }

// Lookup finds a check.
func Lookup(id string) *Spec { return registry[id] }

// IDs lists registered checks.
func IDs() []string {
	var out []string
	for k := range registry {
		out = append(out, k)
	}
	sort.Strings(out)
	return out
}
