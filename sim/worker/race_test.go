//go:build race

package worker

import (
	"context"
	"fmt"
	"math/rand/v2"
	"net/netip"
	"os"
	"strconv"
	"sync"
	"testing"
	"testing/synctest"
	"time"

	"github.com/pion/ice/v4"
	"github.com/pion/stun/v3"

	"verif/sim/core"
	"verif/sim/rig"
	"verif/sim/tape"
)

// TestRaceAPI is the supplementary monitor of C10: the public API of two live agents is called from
// many goroutines in real parallel (no scheduler serialises them) under the race detector, while a pump
// goroutine keeps traffic flowing. The interleaving is NOT controlled here - a data race report is
// happens-before based, so it does not depend on the timing once both accesses execute. The process
// exits non-zero with the detector's report on stderr if a race is found.
func TestRaceAPI(t *testing.T) {
	if os.Getenv("VERIF_RACE") == "" {
		t.Skip("VERIF_RACE not set")
	}
	seed, _ := strconv.ParseInt(os.Getenv("VERIF_SEED"), 10, 64)
	rounds := envInt("VERIF_RACE_ROUNDS", 20)
	for r := 0; r < rounds; r++ {
		raceRound(t, seed, r)
	}
}

func raceRound(t *testing.T, seed int64, round int) {
	synctest.Test(t, func(*testing.T) {
		c := core.NewCtx("C10", "race", tape.New(seed, "C10race", round), false)
		defer c.RunCleanup()
		ci := 50 * time.Millisecond
		opts := func() []ice.AgentOption {
			return []ice.AgentOption{ice.WithCheckInterval(ci), ice.WithKeepaliveInterval(200 * time.Millisecond),
				ice.WithCandidateTypes([]ice.CandidateType{ice.CandidateTypeHost, ice.CandidateTypeServerReflexive}),
				ice.WithSrflxAcceptanceMinWait(0), ice.WithMaxBindingRequests(100),
				ice.WithRenomination(ice.DefaultNominationValueGenerator())}
		}
		d, err := rig.NewDuo(c, rig.DuoCfg{AddrsA: []string{"10.0.1.10", "10.0.1.11"}, AddrsB: []string{"10.0.2.10"},
			AliasA: "198.51.100.1", OptsA: opts(), OptsB: opts()})
		if err != nil {
			t.Fatalf("setup: %v", err)
		}
		d.W.ParkListens = false
		A, B := d.A, d.B
		_ = A.A.GatherCandidates()
		_ = B.A.GatherCandidates()
		stop := make(chan struct{})
		var wg sync.WaitGroup
		// pump: deliver everything in flight, signal new candidates
		wg.Add(1)
		go func() {
			defer wg.Done()
			signalled := map[string]bool{}
			for {
				select {
				case <-stop:
					return
				default:
				}
				for _, pr := range [][2]*rig.AgentH{{A, B}, {B, A}} {
					for _, cand := range pr[0].CandSeq() {
						if cand == nil {
							continue
						}
						k := pr[0].Name + cand.Marshal()
						if !signalled[k] {
							signalled[k] = true
							if rc, err := ice.UnmarshalCandidate(cand.Marshal()); err == nil {
								_ = pr[1].A.AddRemoteCandidate(rc)
							}
						}
					}
				}
				for _, dg := range d.W.InFlight() {
					d.W.Deliver(dg)
				}
				time.Sleep(2 * time.Millisecond)
			}
		}()
		// foreign inbound traffic, concurrently with everything else: Binding indications (keepalives of a
		// non-pion peer) and plain data, from the addresses of known remote candidates and from unknown ones
		wg.Add(1)
		go func() {
			defer wg.Done()
			rng := rand.New(rand.NewPCG(uint64(seed), uint64(round*100+99)))
			seq := uint32(0)
			for {
				select {
				case <-stop:
					return
				default:
				}
				to, from := A, B
				if rng.IntN(2) == 0 {
					to, from = B, A
				}
				locals, _ := to.A.GetLocalCandidates()
				if len(locals) > 0 {
					dst := rig.CandAP(locals[rng.IntN(len(locals))])
					src := netip.AddrPortFrom(netip.MustParseAddr("10.0.9.9"), uint16(9000+rng.IntN(8)))
					if remotes, _ := to.A.GetRemoteCandidates(); len(remotes) > 0 && rng.IntN(3) > 0 {
						src = rig.CandAP(remotes[rng.IntN(len(remotes))])
					}
					seq++
					var payload []byte
					switch rng.IntN(3) {
					case 0:
						payload = rig.MsgSpec{Class: stun.ClassIndication, Method: stun.MethodBinding, Seq: seq, Integrity: rig.IntAbsent}.Build()
					case 1:
						payload = rig.MsgSpec{Class: stun.ClassRequest, Method: stun.MethodBinding, Seq: seq,
							Username: rig.Str(to.Ufrag + ":" + from.Ufrag), Priority: rig.U32(1234), Controlled: rig.U64(7), Key: to.Pwd}.Build()
					default:
						payload = []byte(fmt.Sprintf("\x80foreign-data-%d", seq))
					}
					d.W.Deliver(d.W.Inject(src, dst, payload, "race-inject"))
				}
				time.Sleep(time.Duration(1+rng.IntN(3)) * time.Millisecond)
			}
		}()
		var connMu sync.Mutex
		var connA, connB *ice.Conn
		wg.Add(2)
		go func() {
			defer wg.Done()
			cn, err := A.A.Dial(context.Background(), B.Ufrag, B.Pwd)
			connMu.Lock()
			connA = cn
			connMu.Unlock()
			_ = err
		}()
		go func() {
			defer wg.Done()
			cn, err := B.A.Accept(context.Background(), A.Ufrag, A.Pwd)
			connMu.Lock()
			connB = cn
			connMu.Unlock()
			_ = err
		}()
		// API callers
		nCallers := 6
		for g := 0; g < nCallers; g++ {
			g := g
			wg.Add(1)
			go func() {
				defer wg.Done()
				rng := rand.New(rand.NewPCG(uint64(seed), uint64(round*100+g)))
				ag := []*rig.AgentH{A, B}[g%2]
				buf := make([]byte, 1500)
				for {
					select {
					case <-stop:
						return
					default:
					}
					connMu.Lock()
					cn := connA
					if ag == B {
						cn = connB
					}
					connMu.Unlock()
					switch rng.IntN(18) {
					case 0:
						_, _ = ag.A.GetLocalCandidates()
					case 1:
						_, _ = ag.A.GetRemoteCandidates()
					case 2:
						_ = ag.A.GetCandidatePairsStats()
					case 3:
						_, _ = ag.A.GetSelectedCandidatePairStats()
					case 4:
						_, _ = ag.A.GetSelectedCandidatePair()
					case 5:
						_ = ag.A.GetLocalCandidatesStats()
						_ = ag.A.GetRemoteCandidatesStats()
					case 6:
						_, _, _ = ag.A.GetLocalUserCredentials()
						_, _, _ = ag.A.GetRemoteUserCredentials()
					case 7:
						_, _ = ag.A.GetGatheringState()
					case 8:
						if cn != nil {
							_, _ = cn.Write([]byte(fmt.Sprintf("data-%d-%d", g, rng.IntN(1000))))
						}
					case 9:
						if cn != nil {
							_ = cn.SetReadDeadline(time.Now().Add(time.Millisecond))
							_, _ = cn.Read(buf)
						}
					case 10:
						if cn != nil {
							for _, p := range cn.GetCandidatePairsInfo() {
								if p.State == ice.CandidatePairStateSucceeded {
									_, _ = cn.WriteToPair(p.ID, []byte("to-pair"))
									break
								}
							}
						}
					case 11:
						if ag == A {
							l, _ := ag.A.GetLocalCandidates()
							r, _ := ag.A.GetRemoteCandidates()
							if len(l) > 0 && len(r) > 0 {
								_ = ag.A.RenominateCandidate(l[rng.IntN(len(l))], r[rng.IntN(len(r))])
							}
						}
					case 12:
						if cn != nil {
							_ = cn.LocalAddr()
							_ = cn.RemoteAddr()
							_ = cn.BytesSent()
							_ = cn.BytesReceived()
						}
					case 13:
						_ = ag.A.OnConnectionStateChange(func(ice.ConnectionState) {})
					case 14:
						_ = ag.A.SetRemoteCredentials(map[bool]string{true: B.Ufrag, false: A.Ufrag}[ag == A], map[bool]string{true: B.Pwd, false: A.Pwd}[ag == A])
					case 15:
						_ = ag.A.UpdateOptions()
					case 16:
						_ = ag.A.GatherCandidates()
					case 17:
						_ = ag.A.GetLocalCandidatesStats()
						if cand, err := ice.NewCandidateHost(&ice.CandidateHostConfig{Network: "udp", Address: "10.0.9.9", Port: 9000 + g, Component: 1}); err == nil {
							_ = ag.A.AddRemoteCandidate(cand)
						}
					}
					time.Sleep(time.Duration(1+rng.IntN(5)) * time.Millisecond)
				}
			}()
		}
		time.Sleep(3 * time.Second)
		if round%2 == 1 {
			// restart in the middle of the concurrent traffic
			uf, pw := rig.Creds("A", 1)
			_ = A.A.Restart(uf, pw)
			_ = A.A.GatherCandidates()
			time.Sleep(time.Second)
		}
		// close concurrently with the callers still running
		_ = A.A.Close()
		time.Sleep(200 * time.Millisecond)
		close(stop)
		_ = B.A.Close()
		wg.Wait()
	})
}
