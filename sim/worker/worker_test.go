// Package worker is the test binary that executes simulated runs. It is driven
// by /verif/bin/vcheck through environment variables; see TestWorker.
package worker

import (
	"encoding/json"
	"fmt"
	"github.com/pion/ice/v4"
	"os"
	"runtime"
	"runtime/debug"
	"strconv"
	"strings"
	"sync/atomic"
	"testing"
	"testing/synctest"
	"time"

	_ "verif/sim/checks"
	"verif/sim/core"
	"verif/sim/tape"
)

type violationOut struct {
	core.Violation
	Seed     int64          `json:"seed"`
	Run      int            `json:"run"`
	Tape     []uint32       `json:"tape"`
	OrigLen  int            `json:"orig_tape_len"`
	MinExecs int            `json:"min_execs"`
	Trace    []string       `json:"trace"`
	Knobs    map[string]any `json:"knobs,omitempty"`
}

type summary struct {
	Check      string         `json:"check"`
	Tier       string         `json:"tier"`
	Seed       int64          `json:"seed"`
	From       int            `json:"from"`
	To         int            `json:"to"`
	Runs       int            `json:"runs"`
	Evals      int64          `json:"evals"`
	Steps      int64          `json:"steps"`
	SimNanos   int64          `json:"sim_ns"`
	WallS      float64        `json:"wall_s"`
	Faults     map[string]int `json:"faults"`
	Probes     map[string]int `json:"probes"`
	FPs        []uint64       `json:"fps"`     // fingerprints of non-trivial runs
	AllFPs     int            `json:"all_fps"` // distinct fingerprints among all runs
	States     []string       `json:"states"`
	Samples    []*core.Result `json:"samples"`
	Violations []violationOut `json:"violations"`
	Hang       *violationOut  `json:"hang,omitempty"`
	Logs       []string       `json:"logs,omitempty"` // per-run fingerprints for the determinism self-test
}

func envInt(k string, def int) int {
	if v := os.Getenv(k); v != "" {
		if n, err := strconv.Atoi(v); err == nil {
			return n
		}
	}
	return def
}

// current run bookkeeping for the wall-clock watchdog (outside any bubble)
var (
	curStart atomic.Int64 // unix nanos (real clock) of the running bubble, 0 = none
	curInfo  atomic.Value // string
)

var (
	curSeed int64
	curTape atomic.Pointer[tape.Tape]
)

func runBubble(t *testing.T, spec *core.Spec, tp *tape.Tape, tier string, trace bool, run int) *core.Result {
	var ctx *core.Ctx
	var bubblePanic string
	curStart.Store(time.Now().UnixNano())
	curTape.Store(tp)
	func() {
		defer func() {
			if r := recover(); r != nil {
				bubblePanic = fmt.Sprint(r)
				if os.Getenv("VERIF_DUMP_ON_HANG") != "" {
					buf := make([]byte, 1<<20)
					n := runtime.Stack(buf, true)
					fmt.Fprintf(os.Stderr, "run %d: %s\n%s\n", run, bubblePanic, buf[:n])
				}
			}
		}()
		synctest.Test(t, func(*testing.T) {
			ctx = core.NewCtx(spec.ID, tier, tp, trace)
			ctx.Seed, ctx.Run = curSeed, run
			defer func() {
				if r := recover(); r != nil {
					// a panic raised by the harness itself is a harness error, never a violation: decided by
					// the first frame below the panic that is neither runtime nor the recover plumbing
					st := string(debug.Stack())
					class := spec.ID + "/panic"
					if panicInHarness(st) {
						class = "harness/panic"
					}
					ctx.Failf(class, "panic in run: %v\n%s", r, firstLines(st, 30))
				}
				ctx.RunCleanup()
				// Fake time stops when the root goroutine exits, so bounded waits that are still pending
				// (read deadlines of superseded gatherers, expiry timers) get 60 simulated seconds to run
				// out; whatever is still blocked after that is a leak.
				time.Sleep(60 * time.Second)
				synctest.Wait()
			}()
			// Ties between select cases that are ready together (a cancellation and a hand-off to the loop) are
			// the runtime's random choice unless somebody decides them. Checks that run under the goroutine
			// scheduler install their own, tape-driven decision; for all others the choice is fixed per run -
			// the same in every process, different from run to run, both outcomes being legal.
			pick := run
			ice.VerifSetPick(func(_ string, n int) int { return pick % n })
			defer ice.VerifSetPick(nil)
			spec.Fn(ctx)
		})
	}()
	curStart.Store(0)
	if ctx == nil {
		ctx = core.NewCtx(spec.ID, tier, tp, trace)
	}
	if bubblePanic != "" {
		class := spec.ID + "/bubble-" + classifyBubblePanic(bubblePanic)
		if !spec.HangIsViolation {
			class = "harness/bubble-" + classifyBubblePanic(bubblePanic)
		}
		if os.Getenv("VERIF_DUMP_ON_HANG") != "" {
			fmt.Fprintln(os.Stderr, bubblePanic)
		}
		ctx.Failf(class, "%s", firstLines(bubblePanic, 40))
	}
	return ctx.Finish(run)
}

func classifyBubblePanic(s string) string {
	switch {
	case strings.Contains(s, "main bubble goroutine has exited"):
		return "goroutine-leak"
	case strings.Contains(s, "deadlock"):
		return "deadlock"
	default:
		return "panic"
	}
}

func firstLines(s string, n int) string {
	parts := strings.Split(s, "\n")
	if len(parts) > n {
		parts = parts[:n]
	}
	return strings.Join(parts, "\n")
}

// TestWorker runs VERIF_CHECK for run indices [VERIF_FROM, VERIF_TO) with VERIF_SEED,
// or replays VERIF_REPLAY, and writes a JSON summary to VERIF_OUT.
func TestWorker(t *testing.T) {
	id := os.Getenv("VERIF_CHECK")
	if id == "" {
		t.Skip("VERIF_CHECK not set")
	}
	spec := core.Lookup(id)
	if spec == nil {
		fmt.Fprintf(os.Stderr, "unknown check %q (have %v)\n", id, core.IDs())
		os.Exit(2)
	}
	tier := os.Getenv("VERIF_TIER")
	if tier == "" {
		tier = "quick"
	}
	seed64, _ := strconv.ParseInt(os.Getenv("VERIF_SEED"), 10, 64)
	curSeed = seed64
	out := os.Getenv("VERIF_OUT")
	wallBudget := time.Duration(envInt("VERIF_WALL_S", 3600)) * time.Second
	runWatchdog := time.Duration(envInt("VERIF_RUN_WATCHDOG_S", 30)) * time.Second
	sum := &summary{Check: id, Tier: tier, Seed: seed64, Faults: map[string]int{}, Probes: map[string]int{}}
	write := func() {
		b, _ := json.Marshal(sum)
		if out == "" {
			fmt.Println(string(b))
			return
		}
		if err := os.WriteFile(out, b, 0o644); err != nil {
			fmt.Fprintln(os.Stderr, "write:", err)
			os.Exit(2)
		}
	}

	// watchdog on the real clock: a stuck bubble is reported and the process exits at once
	go func() {
		for {
			// coarse on purpose: under GOMAXPROCS=1 every wake-up of this goroutine perturbs the order in which
			// goroutines woken in the same step reach their park sites
			time.Sleep(2 * time.Second)
			st := curStart.Load()
			if st != 0 && time.Since(time.Unix(0, st)) > runWatchdog {
				info, _ := curInfo.Load().(string)
				var h violationOut
				_ = json.Unmarshal([]byte(info), &h)
				if tp := curTape.Load(); tp != nil {
					h.Tape = tp.Recorded()
				}
				h.Class = id + "/hang"
				if !spec.HangIsViolation {
					h.Class = "harness/hang"
				}
				h.Property = id
				h.Msg = fmt.Sprintf("run did not finish within %v of wall-clock time", runWatchdog)
				sum.Hang = &h
				write()
				if os.Getenv("VERIF_DUMP_ON_HANG") != "" {
					buf := make([]byte, 1<<20)
					n := runtime.Stack(buf, true)
					fmt.Fprintf(os.Stderr, "%s\n", buf[:n])
				}
				os.Exit(3)
			}
		}
	}()

	if rp := os.Getenv("VERIF_REPLAY"); rp != "" {
		b, err := os.ReadFile(rp)
		if err != nil {
			fmt.Fprintln(os.Stderr, err)
			os.Exit(2)
		}
		var v violationOut
		if err := json.Unmarshal(b, &v); err != nil {
			fmt.Fprintln(os.Stderr, err)
			os.Exit(2)
		}
		info, _ := json.Marshal(violationOut{Seed: v.Seed, Run: v.Run, Tape: v.Tape})
		curInfo.Store(string(info))
		tp := tape.Replay(v.Tape)
		curSeed = v.Seed
		res := runBubble(t, spec, tp, tier, true, v.Run)
		sum.Runs = 1
		sum.Samples = []*core.Result{res}
		if res.Violation != nil {
			sum.Violations = append(sum.Violations, violationOut{Violation: *res.Violation, Seed: v.Seed, Run: v.Run,
				Tape: res.Tape, Trace: res.Trace, Knobs: res.Knobs})
		}
		write()
		return
	}

	from, to := envInt("VERIF_FROM", 0), envInt("VERIF_TO", 1)
	sum.From, sum.To = from, to
	keepLogs := os.Getenv("VERIF_KEEP_FPS") != ""
	nSamples := envInt("VERIF_SAMPLES", 1)
	fpAll := map[uint64]struct{}{}
	fpNT := map[uint64]struct{}{}
	states := map[string]struct{}{}
	knownClasses, knownSeen := map[string]bool{}, map[string]bool{}
	for _, k := range strings.Split(os.Getenv("VERIF_KNOWN_CLASSES"), ",") {
		if k = strings.TrimSpace(k); k != "" {
			knownClasses[k] = true
		}
	}
	t0 := time.Now()
	// progress marker: if code under test panics on one of its own goroutines the process dies with no
	// summary; the driver reads the index of the run that was executing from here and replays that run
	var curF *os.File
	if out != "" {
		curF, _ = os.Create(out + ".cur")
	}
	for run := from; run < to; run++ {
		if time.Since(t0) > wallBudget {
			break
		}
		if curF != nil {
			_, _ = curF.WriteAt([]byte(fmt.Sprintf("%012d", run)), 0)
		}
		tp := tape.New(seed64, id, run)
		info, _ := json.Marshal(violationOut{Seed: seed64, Run: run})
		curInfo.Store(string(info))
		trace := len(sum.Samples) < nSamples
		traceRun := envInt("VERIF_TRACE_RUN", -1) == run
		if traceRun {
			trace = true
		}
		res := runBubble(t, spec, tp, tier, trace, run)
		sum.Runs++
		sum.Steps += int64(res.Steps)
		sum.Evals += int64(res.Evals)
		sum.SimNanos += res.SimNanos
		for k, v := range res.Faults {
			sum.Faults[k] += v
		}
		for k, v := range res.Probes {
			sum.Probes[k] += v
		}
		fpAll[res.Fingerprint] = struct{}{}
		if res.Nontrivial {
			fpNT[res.Fingerprint] = struct{}{}
		}
		for _, s := range res.States {
			states[s] = struct{}{}
		}
		if keepLogs {
			sum.Logs = append(sum.Logs, fmt.Sprintf("%d:%016x:%d", run, res.Fingerprint, res.Steps))
		}
		if traceRun {
			_ = os.WriteFile(os.Getenv("VERIF_TRACE_FILE"), []byte(strings.Join(res.Trace, "\n")+"\n"), 0o644)
		}
		if trace && res.Violation == nil {
			if len(res.Trace) > 60 && os.Getenv("VERIF_FULL_TRACE") == "" {
				res.Trace = append(res.Trace[:60], fmt.Sprintf("... (%d more events)", len(res.Trace)-60))
			}
			res.Tape = nil
			sum.Samples = append(sum.Samples, res)
		}
		if res.Violation != nil {
			full := tp.Recorded()
			class := res.Violation.Class
			if knownClasses[class] {
				// a listed known finding: the first occurrence is recorded (with its replay), the others are
				// only counted; none of them stops the search for other violations
				sum.Probes["known-finding:"+class]++
				if knownSeen[class] {
					continue
				}
				knownSeen[class] = true
			}
			minTape, execs := full, 0
			if os.Getenv("VERIF_NO_MINIMIZE") == "" {
				deadline := time.Now().Add(time.Duration(envInt("VERIF_MIN_S", 60)) * time.Second)
				minTape, execs = tape.Minimize(full, envInt("VERIF_MIN_EXECS", 2000), func(c []uint32) bool {
					if time.Now().After(deadline) {
						return false
					}
					info, _ := json.Marshal(violationOut{Seed: seed64, Run: run, Tape: c})
					curInfo.Store(string(info))
					r := runBubble(t, spec, tape.Replay(c), tier, false, run)
					return r.Violation != nil && r.Violation.Class == class
				})
			}
			final := runBubble(t, spec, tape.Replay(minTape), tier, true, run)
			v := violationOut{Seed: seed64, Run: run, Tape: minTape, OrigLen: len(full), MinExecs: execs}
			if final.Violation != nil && final.Violation.Class == class {
				v.Violation = *final.Violation
				v.Trace = final.Trace
				v.Knobs = final.Knobs
			} else {
				// minimisation result does not reproduce: fall back to the full tape
				again := runBubble(t, spec, tape.Replay(full), tier, true, run)
				v.Tape = full
				v.Violation = *res.Violation
				v.Trace = again.Trace
				v.Knobs = again.Knobs
				if again.Violation == nil || again.Violation.Class != class {
					v.Msg += " [NOT REPRODUCED on immediate replay of the recorded tape]"
				}
			}
			sum.Violations = append(sum.Violations, v)
			unknown := 0
			for _, x := range sum.Violations {
				if !knownClasses[x.Class] {
					unknown++
				}
			}
			if unknown >= envInt("VERIF_MAX_VIOLATIONS", 3) {
				break
			}
		}
	}
	sum.WallS = time.Since(t0).Seconds()
	sum.AllFPs = len(fpAll)
	for k := range fpNT {
		sum.FPs = append(sum.FPs, k)
	}
	for k := range states {
		sum.States = append(sum.States, k)
	}
	write()
}

// panicInHarness reports whether the function that panicked (the first frame after runtime's panic frames in
// a stack taken inside the deferred recover) belongs to the harness (/verif/sim) rather than to /repo.
func panicInHarness(stack string) bool {
	lines := strings.Split(stack, "\n")
	seenPanic := false
	for i := 0; i+1 < len(lines); i++ {
		fn, loc := lines[i], strings.TrimSpace(lines[i+1])
		if strings.HasPrefix(fn, "panic(") || strings.HasPrefix(fn, "runtime.") {
			if strings.HasPrefix(fn, "panic(") || strings.Contains(fn, "panic") || strings.Contains(fn, "sigpanic") {
				seenPanic = true
			}
			continue
		}
		if !seenPanic || !strings.HasPrefix(loc, "/") {
			continue
		}
		return strings.HasPrefix(loc, "/verif/")
	}
	return false
}
