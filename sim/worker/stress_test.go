package worker

import (
	"errors"
	"fmt"
	"io"
	"net"
	"os"
	"sync"
	"testing"
	"time"

	"github.com/pion/ice/v4"

	"verif/sim/rig"
)

// TestStressC13 is a supplementary monitor of C13 (not the deciding step: the interleaving is the Go runtime's,
// nothing replays). The scheduler-driven part of C13 explores interleavings at Yield sites; a change that
// REMOVES synchronisation (a sync.Once replaced by a check-then-act) opens a window that contains no site.
// Here the same handle of a real UDPMuxDefault (loopback socket) is closed from two goroutines in real
// parallel, round after round; afterwards the sibling handle must still send, and closing it must release
// the connection exactly then. The property holds on every round or the monitor prints STRESS-VIOLATION.
func TestStressC13(t *testing.T) {
	if os.Getenv("VERIF_STRESS") == "" {
		t.Skip("VERIF_STRESS not set")
	}
	budget := time.Duration(envInt("VERIF_STRESS_MS", 2000)) * time.Millisecond
	pc, err := net.ListenUDP("udp4", &net.UDPAddr{IP: net.IPv4(127, 0, 0, 1)})
	if err != nil {
		fmt.Println("STRESS-SKIP: no loopback socket:", err)
		return
	}
	peer, err := net.ListenUDP("udp4", &net.UDPAddr{IP: net.IPv4(127, 0, 0, 1)})
	if err != nil {
		fmt.Println("STRESS-SKIP: no loopback socket:", err)
		return
	}
	defer func() { _ = peer.Close() }()
	mux := ice.NewUDPMuxDefault(ice.UDPMuxParams{UDPConn: pc, Logger: rig.Quiet().NewLogger("stress")})
	defer func() { _ = mux.Close() }()
	local := pc.LocalAddr()
	t0 := time.Now()
	rounds := 0
	for time.Since(t0) < budget {
		rounds++
		uf := fmt.Sprintf("u%d", rounds)
		a, err := mux.GetConn(uf, local)
		if err != nil {
			fmt.Println("STRESS-ERROR: GetConn:", err)
			return
		}
		b, err := mux.GetConn(uf, local)
		if err != nil {
			fmt.Println("STRESS-ERROR: GetConn:", err)
			return
		}
		var start, done sync.WaitGroup
		start.Add(1)
		for i := 0; i < 2; i++ {
			done.Add(1)
			go func() {
				defer done.Done()
				start.Wait()
				_ = a.Close()
			}()
		}
		start.Done()
		done.Wait()
		if _, err := b.WriteTo([]byte("sibling"), peer.LocalAddr()); err != nil {
			if errors.Is(err, io.ErrClosedPipe) || errors.Is(err, net.ErrClosed) {
				fmt.Printf("STRESS-VIOLATION round=%d: two concurrent Close calls on ONE handle of ufrag %s; afterwards WriteTo on the sibling handle, which was never closed, fails with %v (the shared connection was released under it)\n", rounds, uf, err)
				return
			}
			fmt.Println("STRESS-ERROR: sibling WriteTo:", err)
			return
		}
		_ = b.Close()
		mux.RemoveConnByUfrag(uf)
	}
	fmt.Printf("STRESS-OK rounds=%d wall=%v\n", rounds, time.Since(t0).Round(time.Millisecond))
}
