// Package rig builds real ice.Agents on simulated hosts and records everything
// observable about them through the public API (callbacks, getters) only.
package rig

import (
	"fmt"
	"net/netip"
	"os"
	"sort"
	"sync"
	"time"

	"github.com/pion/ice/v4"
	"github.com/pion/logging"

	"verif/sim/simnet"
)

// StateEv is one connection-state callback.
type StateEv struct {
	At    time.Duration
	State ice.ConnectionState
}

// PairEv is one selected-pair callback (transport addresses).
type PairEv struct {
	At            time.Duration
	Local, Remote string
}

// AgentH wraps one agent under test.
type AgentH struct {
	Name  string
	A     *ice.Agent
	Host  *simnet.Host
	Ufrag string
	Pwd   string
	Conn  *ice.Conn

	start                   time.Time
	mu                      sync.Mutex
	States                  []StateEv
	Cands                   []ice.Candidate // local candidates in callback order (nil = end of gathering)
	Selected                []PairEv
	inState, inCand, inPair int // re-entrancy / overlap detectors
	Overlap                 []string

	// Optional user hooks invoked from inside the callbacks (after recording).
	stateFn func(ice.ConnectionState)
	candFn  func(ice.Candidate)
	pairFn  func(l, r ice.Candidate)
	OnState func(ice.ConnectionState)
	OnCand  func(ice.Candidate)
	OnPair  func(l, r ice.Candidate)
}

// Quiet returns a logger factory that discards everything.
func Quiet() logging.LoggerFactory {
	lf := logging.NewDefaultLoggerFactory()
	lf.DefaultLogLevel = logging.LogLevelDisabled
	if os.Getenv("VERIF_PION_LOG") != "" {
		lf.DefaultLogLevel = logging.LogLevelTrace
	}
	return lf
}

// Creds returns deterministic credentials for (name, generation).
func Creds(name string, gen int) (string, string) {
	return fmt.Sprintf("uf%s%04d", name, gen), fmt.Sprintf("pw%s%04dxxxxxxxxxxxxxxxxxxxxxxxx", name, gen)
}

// NewAgent builds an agent on host h with the given extra options. Credentials
// are explicit so that nothing depends on crypto/rand.
func NewAgent(name string, h *simnet.Host, start time.Time, opts ...ice.AgentOption) (*AgentH, error) {
	uf, pw := Creds(name, 0)
	base := []ice.AgentOption{
		ice.WithNet(h.Net()),
		ice.WithLoggerFactory(Quiet()),
		ice.WithMulticastDNSMode(ice.MulticastDNSModeDisabled),
		ice.WithLocalCredentials(uf, pw),
	}
	a, err := ice.NewAgentWithOptions(append(base, opts...)...)
	if err != nil {
		return nil, err
	}
	return wrapAgent(name, h, start, a, uf, pw), nil
}

// NewAgentFromConfig builds the agent through the AgentConfig constructor (ice.NewAgent) instead of options;
// the rig fills in the simulated network, the quiet logger, the credentials and the mDNS mode.
func NewAgentFromConfig(name string, h *simnet.Host, start time.Time, cfg *ice.AgentConfig) (*AgentH, error) {
	uf, pw := Creds(name, 0)
	cfg.Net = h.Net()
	cfg.LoggerFactory = Quiet()
	cfg.MulticastDNSMode = ice.MulticastDNSModeDisabled
	cfg.LocalUfrag, cfg.LocalPwd = uf, pw
	a, err := ice.NewAgent(cfg)
	if err != nil {
		return nil, err
	}
	return wrapAgent(name, h, start, a, uf, pw), nil
}

func wrapAgent(name string, h *simnet.Host, start time.Time, a *ice.Agent, uf, pw string) *AgentH {
	ah := &AgentH{Name: name, A: a, Host: h, Ufrag: uf, Pwd: pw, start: start}
	ah.stateFn = func(s ice.ConnectionState) {
		ah.mu.Lock()
		ah.inState++
		if ah.inState > 1 {
			ah.Overlap = append(ah.Overlap, "state")
		}
		ah.States = append(ah.States, StateEv{time.Since(start), s})
		f := ah.OnState
		ah.mu.Unlock()
		if f != nil {
			f(s)
		}
		ah.mu.Lock()
		ah.inState--
		ah.mu.Unlock()
	}
	ah.candFn = func(c ice.Candidate) {
		ah.mu.Lock()
		ah.inCand++
		if ah.inCand > 1 {
			ah.Overlap = append(ah.Overlap, "candidate")
		}
		ah.Cands = append(ah.Cands, c)
		f := ah.OnCand
		ah.mu.Unlock()
		if f != nil {
			f(c)
		}
		ah.mu.Lock()
		ah.inCand--
		ah.mu.Unlock()
	}
	ah.pairFn = func(l, r ice.Candidate) {
		ah.mu.Lock()
		ah.inPair++
		if ah.inPair > 1 {
			ah.Overlap = append(ah.Overlap, "pair")
		}
		ah.Selected = append(ah.Selected, PairEv{time.Since(start), CandAddr(l), CandAddr(r)})
		f := ah.OnPair
		ah.mu.Unlock()
		if f != nil {
			f(l, r)
		}
		ah.mu.Lock()
		ah.inPair--
		ah.mu.Unlock()
	}
	ah.ReRegister()
	return ah
}

// CandAddr renders a candidate's transport address "net/ip:port".
func CandAddr(c ice.Candidate) string {
	if c == nil {
		return "<nil>"
	}
	return fmt.Sprintf("%s/%s", c.NetworkType().NetworkShort(), netip.AddrPortFrom(mustAddr(c.Address()), uint16(c.Port())))
}

func mustAddr(s string) netip.Addr {
	a, err := netip.ParseAddr(s)
	if err != nil {
		return netip.Addr{}
	}
	return a.Unmap()
}

// CandAP returns the candidate's transport address.
func CandAP(c ice.Candidate) netip.AddrPort {
	return netip.AddrPortFrom(mustAddr(c.Address()), uint16(c.Port()))
}

// LastState returns the most recent state callback (New if none).
func (a *AgentH) LastState() ice.ConnectionState {
	a.mu.Lock()
	defer a.mu.Unlock()
	if len(a.States) == 0 {
		return ice.ConnectionStateNew
	}
	return a.States[len(a.States)-1].State
}

// StateSeq returns a copy of the state callbacks.
func (a *AgentH) StateSeq() []StateEv {
	a.mu.Lock()
	defer a.mu.Unlock()
	return append([]StateEv(nil), a.States...)
}

// SelectedSeq returns a copy of the selected-pair callbacks.
func (a *AgentH) SelectedSeq() []PairEv {
	a.mu.Lock()
	defer a.mu.Unlock()
	return append([]PairEv(nil), a.Selected...)
}

// CandSeq returns a copy of the candidate callbacks.
func (a *AgentH) CandSeq() []ice.Candidate {
	a.mu.Lock()
	defer a.mu.Unlock()
	return append([]ice.Candidate(nil), a.Cands...)
}

// Overlaps returns detected overlapping handler invocations.
func (a *AgentH) Overlaps() []string {
	a.mu.Lock()
	defer a.mu.Unlock()
	return append([]string(nil), a.Overlap...)
}

// SelectedPair returns the selected pair's transport addresses, or ok=false.
func (a *AgentH) SelectedPair() (local, remote netip.AddrPort, ok bool) {
	p, err := a.A.GetSelectedCandidatePair()
	if err != nil || p == nil {
		return netip.AddrPort{}, netip.AddrPort{}, false
	}
	return CandAP(p.Local), CandAP(p.Remote), true
}

// LocalCands returns the agent's local candidates sorted by transport address.
func (a *AgentH) LocalCands() []ice.Candidate {
	cs, err := a.A.GetLocalCandidates()
	if err != nil {
		return nil
	}
	SortCands(cs)
	return cs
}

// RemoteCands returns the agent's remote candidates sorted by transport address.
func (a *AgentH) RemoteCands() []ice.Candidate {
	cs, err := a.A.GetRemoteCandidates()
	if err != nil {
		return nil
	}
	SortCands(cs)
	return cs
}

// SortCands orders candidates by (address, type).
func SortCands(cs []ice.Candidate) {
	sort.SliceStable(cs, func(i, j int) bool {
		a, b := CandAddr(cs[i]), CandAddr(cs[j])
		if a != b {
			return a < b
		}
		return cs[i].Type() < cs[j].Type()
	})
}

// Busy returns how many application callbacks of this agent are executing right now.
func (a *AgentH) Busy() int {
	a.mu.Lock()
	defer a.mu.Unlock()
	return a.inState + a.inCand + a.inPair
}

// ReRegister installs the harness's three recording callbacks (again): what an application does that swaps
// or re-installs a handler, possibly from inside a callback.
func (a *AgentH) ReRegister() {
	_ = a.A.OnConnectionStateChange(a.stateFn)
	_ = a.A.OnCandidate(a.candFn)
	_ = a.A.OnSelectedCandidatePairChange(a.pairFn)
}
