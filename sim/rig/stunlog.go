package rig

import (
	"fmt"

	"github.com/pion/stun/v3"

	"verif/sim/simnet"
)

// Msg is a decoded view of a STUN datagram (independent of pion/ice's own parsing).
type Msg struct {
	IsSTUN       bool
	Class        stun.MessageClass
	Method       stun.Method
	TxID         [stun.TransactionIDSize]byte
	Username     string
	HasUsername  bool
	UseCandidate bool
	Nomination   *uint32
	Controlling  *uint64
	Controlled   *uint64
	Priority     *uint32
	ErrorCode    int
	HasIntegrity bool
	HasFinger    bool
	// TrailingUnauthenticated: attributes other than FINGERPRINT follow MESSAGE-INTEGRITY
	TrailingUnauthenticated bool
	M                       *stun.Message
}

// Decode parses a datagram payload.
func Decode(p []byte) Msg {
	var out Msg
	if !stun.IsMessage(p) {
		return out
	}
	m := &stun.Message{Raw: append([]byte(nil), p...)}
	if err := m.Decode(); err != nil {
		return out
	}
	out.IsSTUN = true
	out.M = m
	out.Class = m.Type.Class
	out.Method = m.Type.Method
	out.TxID = m.TransactionID
	var u stun.Username
	if err := u.GetFrom(m); err == nil {
		out.Username = string(u)
		out.HasUsername = true
	}
	// RFC 5389 section 15.4: attributes that follow MESSAGE-INTEGRITY (other than FINGERPRINT) are not
	// covered by it and must be ignored - the checker's view of a message consists of the covered ones only
	covered := len(m.Attributes)
	for i, a := range m.Attributes {
		if a.Type == stun.AttrMessageIntegrity {
			covered = i
			break
		}
	}
	for i := covered + 1; i < len(m.Attributes); i++ {
		if m.Attributes[i].Type != stun.AttrFingerprint {
			out.TrailingUnauthenticated = true
		}
	}
	get := func(t stun.AttrType) ([]byte, bool) {
		for _, a := range m.Attributes[:covered] {
			if a.Type == t {
				return a.Value, true
			}
		}
		return nil, false
	}
	_, out.UseCandidate = get(stun.AttrUseCandidate)
	if v, ok := get(NominationAttr); ok && len(v) == 4 {
		n := uint32(v[1])<<16 | uint32(v[2])<<8 | uint32(v[3])
		out.Nomination = &n
	}
	if v, ok := get(stun.AttrICEControlling); ok && len(v) == 8 {
		x := be64(v)
		out.Controlling = &x
	}
	if v, ok := get(stun.AttrICEControlled); ok && len(v) == 8 {
		x := be64(v)
		out.Controlled = &x
	}
	if v, ok := get(stun.AttrPriority); ok && len(v) == 4 {
		x := uint32(v[0])<<24 | uint32(v[1])<<16 | uint32(v[2])<<8 | uint32(v[3])
		out.Priority = &x
	}
	var ec stun.ErrorCodeAttribute
	if err := ec.GetFrom(m); err == nil {
		out.ErrorCode = int(ec.Code)
	}
	out.HasIntegrity = m.Contains(stun.AttrMessageIntegrity)
	out.HasFinger = m.Contains(stun.AttrFingerprint)
	return out
}

func be64(v []byte) uint64 {
	var x uint64
	for _, b := range v {
		x = x<<8 | uint64(b)
	}
	return x
}

// TxNames renames crypto-random transaction ids to first-seen indices so that
// logs are a function of the tape.
type TxNames struct {
	m map[[stun.TransactionIDSize]byte]int
}

// Name returns the stable index of a transaction id.
func (t *TxNames) Name(id [stun.TransactionIDSize]byte) int {
	if t.m == nil {
		t.m = map[[stun.TransactionIDSize]byte]int{}
	}
	if v, ok := t.m[id]; ok {
		return v
	}
	v := len(t.m)
	t.m[id] = v
	return v
}

// Describe renders a datagram deterministically.
func (t *TxNames) Describe(d *simnet.Datagram) string {
	m := Decode(d.Payload)
	dup := ""
	if d.Dup {
		dup = " dup"
	}
	if !m.IsSTUN {
		return fmt.Sprintf("%s>%s data len=%d%s", d.Src, d.Dst, len(d.Payload), dup)
	}
	extra := ""
	if m.UseCandidate {
		extra += " UC"
	}
	if m.Nomination != nil {
		extra += fmt.Sprintf(" nom=%d", *m.Nomination)
	}
	if m.ErrorCode != 0 {
		extra += fmt.Sprintf(" err=%d", m.ErrorCode)
	}
	if m.Controlling != nil {
		extra += " ctrl"
	}
	if m.Controlled != nil {
		extra += " ctld"
	}
	return fmt.Sprintf("%s>%s %s/%s tx#%d%s%s%s", d.Src, d.Dst, m.Method, m.Class, t.Name(m.TxID), extra, dup, noteStr(d))
}

func noteStr(d *simnet.Datagram) string {
	if d.Note == "" {
		return ""
	}
	return " [" + d.Note + "]"
}
