package rig

import (
	"net"
	"net/netip"

	"github.com/pion/stun/v3"
)

// Integrity modes for forged messages.
const (
	IntRight   = iota // MESSAGE-INTEGRITY under the given key
	IntWrong          // under a different key
	IntAbsent         // no MESSAGE-INTEGRITY
	IntCorrupt        // right key, then one byte of the HMAC flipped
)

// Fingerprint modes.
const (
	FpRight = iota
	FpAbsent
	FpWrong
)

// NominationAttr is the attribute type under which this run's agents carry nomination values (the default of
// pion/ice unless a check configures both agents otherwise and says so here). One run at a time per process.
var NominationAttr = stun.AttrType(0xC001)

// MsgSpec describes a STUN message to forge (built with pion/stun only).
type MsgSpec struct {
	Class         stun.MessageClass
	Method        stun.Method
	TxID          *[stun.TransactionIDSize]byte // nil = fresh (derived from Seq)
	Seq           uint32                        // used to derive a deterministic fresh transaction id
	Username      *string
	Priority      *uint32
	Controlling   *uint64
	Controlled    *uint64
	UseCandidate  bool
	Nomination    *uint32
	NominationRaw []byte // overrides Nomination when set (malformed sizes)
	XorAddr       *netip.AddrPort
	ErrorCode     int
	Key           string // integrity key
	Integrity     int
	Fingerprint   int
	// AttrsAfterIntegrity adds USE-CANDIDATE after MESSAGE-INTEGRITY (must be ignored by receivers).
	UseCandidateAfterIntegrity bool
}

type rawAttr struct {
	t stun.AttrType
	v []byte
}

func (r rawAttr) AddTo(m *stun.Message) error { m.Add(r.t, r.v); return nil }

func u32(v uint32) []byte { return []byte{byte(v >> 24), byte(v >> 16), byte(v >> 8), byte(v)} }
func u64(v uint64) []byte {
	return []byte{byte(v >> 56), byte(v >> 48), byte(v >> 40), byte(v >> 32), byte(v >> 24), byte(v >> 16), byte(v >> 8), byte(v)}
}

// FreshTxID derives a deterministic transaction id that cannot collide with crypto-random ones in practice.
func FreshTxID(seq uint32) [stun.TransactionIDSize]byte {
	var id [stun.TransactionIDSize]byte
	copy(id[:], []byte("verif-forged"))
	id[8], id[9], id[10], id[11] = byte(seq>>24), byte(seq>>16), byte(seq>>8), byte(seq)
	return id
}

// Build encodes the message.
func (s MsgSpec) Build() []byte {
	m := new(stun.Message)
	m.Type = stun.MessageType{Method: s.Method, Class: s.Class}
	if s.TxID != nil {
		m.TransactionID = *s.TxID
	} else {
		m.TransactionID = FreshTxID(s.Seq)
	}
	m.WriteHeader()
	var setters []stun.Setter
	if s.Username != nil {
		setters = append(setters, stun.NewUsername(*s.Username))
	}
	if s.UseCandidate {
		setters = append(setters, rawAttr{stun.AttrUseCandidate, nil})
	}
	if s.Controlling != nil {
		setters = append(setters, rawAttr{stun.AttrICEControlling, u64(*s.Controlling)})
	}
	if s.Controlled != nil {
		setters = append(setters, rawAttr{stun.AttrICEControlled, u64(*s.Controlled)})
	}
	if s.Priority != nil {
		setters = append(setters, rawAttr{stun.AttrPriority, u32(*s.Priority)})
	}
	if s.NominationRaw != nil {
		setters = append(setters, rawAttr{NominationAttr, s.NominationRaw})
	} else if s.Nomination != nil {
		v := *s.Nomination
		setters = append(setters, rawAttr{NominationAttr, []byte{0, byte(v >> 16), byte(v >> 8), byte(v)}})
	}
	if s.XorAddr != nil {
		setters = append(setters, &stun.XORMappedAddress{IP: net.IP(s.XorAddr.Addr().AsSlice()), Port: int(s.XorAddr.Port())})
	}
	if s.ErrorCode != 0 {
		setters = append(setters, stun.ErrorCodeAttribute{Code: stun.ErrorCode(s.ErrorCode), Reason: []byte("forged")})
	}
	switch s.Integrity {
	case IntRight, IntCorrupt:
		setters = append(setters, stun.NewShortTermIntegrity(s.Key))
	case IntWrong:
		setters = append(setters, stun.NewShortTermIntegrity(s.Key+"-wrong"))
	}
	if s.UseCandidateAfterIntegrity {
		setters = append(setters, rawAttr{stun.AttrUseCandidate, nil})
	}
	if s.Fingerprint != FpAbsent {
		setters = append(setters, stun.Fingerprint)
	}
	for _, st := range setters {
		if err := st.AddTo(m); err != nil {
			panic(err)
		}
	}
	raw := append([]byte(nil), m.Raw...)
	if s.Integrity == IntCorrupt {
		corruptIntegrity(raw)
	}
	if s.Fingerprint == FpWrong && len(raw) >= 4 {
		raw[len(raw)-1] ^= 0xff
	}
	return raw
}

// Str returns a pointer to s.
func Str(s string) *string { return &s }

// U32 returns a pointer to v.
func U32(v uint32) *uint32 { return &v }

// U64 returns a pointer to v.
func U64(v uint64) *uint64 { return &v }

// corruptIntegrity flips one byte of the MESSAGE-INTEGRITY value and, if a FINGERPRINT
// follows, recomputes it so that only the integrity is wrong.
func corruptIntegrity(raw []byte) {
	off := 20
	for off+4 <= len(raw) {
		t := uint16(raw[off])<<8 | uint16(raw[off+1])
		l := int(raw[off+2])<<8 | int(raw[off+3])
		if t == uint16(stun.AttrMessageIntegrity) && off+4+l <= len(raw) {
			raw[off+4+3] ^= 0x55
		}
		if t == uint16(stun.AttrFingerprint) && off+8 <= len(raw) {
			v := stun.FingerprintValue(raw[:off])
			raw[off+4], raw[off+5], raw[off+6], raw[off+7] = byte(v>>24), byte(v>>16), byte(v>>8), byte(v)
		}
		off += 4 + (l+3)/4*4
	}
}

// AppendAfterIntegrity returns a copy of an authentic STUN message with the given attribute appended BEHIND
// its MESSAGE-INTEGRITY (where it is covered by nothing) and the FINGERPRINT recomputed - what somebody on
// the path, who has no credentials, can do to a message in flight. ok is false when the payload is not a
// STUN message with MESSAGE-INTEGRITY.
func AppendAfterIntegrity(payload []byte, t stun.AttrType, value []byte) (out []byte, ok bool) {
	m := &stun.Message{Raw: append([]byte(nil), payload...)}
	if err := m.Decode(); err != nil || !m.Contains(stun.AttrMessageIntegrity) {
		return nil, false
	}
	n := &stun.Message{}
	n.Type = m.Type
	n.TransactionID = m.TransactionID
	n.WriteHeader()
	for _, a := range m.Attributes {
		if a.Type == stun.AttrFingerprint {
			continue
		}
		n.Add(a.Type, a.Value)
	}
	n.Add(t, value)
	if err := stun.Fingerprint.AddTo(n); err != nil {
		return nil, false
	}
	return append([]byte(nil), n.Raw...), true
}
