package rig

import (
	"fmt"
	"testing/synctest"
	"time"

	"verif/sim/core"
	"verif/sim/simnet"
)

// Stepper drives the simulated network one tape-chosen action at a time.
type Stepper struct {
	C *core.Ctx
	W *simnet.World

	// Fault weights (out of 100 per step; the rest is "deliver oldest in order").
	DropW, DupW, ReorderW, AdvanceW int
	// Deltas is the menu of clock advances (index 0 = smallest = default).
	Deltas []time.Duration
	// ListenFault, when non-nil, is asked at each listen release whether to fail it.
	// Describe renders a datagram for the log (must be tape-deterministic).
	Describe func(d *simnet.Datagram) string
	// AfterDeliver is called after each delivery has settled.
	AfterDeliver func(d *simnet.Datagram, res simnet.DeliverResult, to *simnet.Sock)
	// CanDrop limits which datagrams may be dropped/duplicated (nil = all).
	CanFault func(d *simnet.Datagram) bool
	// CanDrop limits which datagrams may be dropped (nil = all); duplicates and reordering stay possible.
	CanDrop func(d *simnet.Datagram) bool
	// Hold keeps a datagram in flight (not eligible for any action) while it returns true.
	Hold func(d *simnet.Datagram) bool
	// Latency, when > 0, is the constant one-way delay of the loss-free network of StepFair.
	Latency time.Duration
}

// Eligible returns the in-flight datagrams that are not held, in canonical order.
func (s *Stepper) Eligible() []*simnet.Datagram {
	pool := s.W.InFlight()
	if s.Hold == nil {
		return pool
	}
	out := pool[:0:0]
	for _, d := range pool {
		if !s.Hold(d) {
			out = append(out, d)
		}
	}
	return out
}

// Settle waits for quiescence and releases parked listeners in canonical order.
func (s *Stepper) Settle() {
	for {
		synctest.Wait()
		p := s.W.Parked()
		if len(p) == 0 {
			return
		}
		s.W.Release(p[0])
	}
}

func (s *Stepper) desc(d *simnet.Datagram) string {
	if s.Describe != nil {
		return s.Describe(d)
	}
	return fmt.Sprintf("%s>%s len=%d", d.Src, d.Dst, len(d.Payload))
}

// Advance moves the fake clock by d and settles.
func (s *Stepper) Advance(d time.Duration) {
	s.C.Step++
	s.C.Logf("advance %v", d)
	time.Sleep(d)
	s.Settle()
}

// Deliver hands one datagram to its destination and settles.
func (s *Stepper) Deliver(d *simnet.Datagram) (simnet.DeliverResult, *simnet.Sock) {
	s.C.Step++
	res, to := s.W.Deliver(d)
	s.C.Logf("deliver %s -> %s", s.desc(d), res)
	s.Settle()
	if s.AfterDeliver != nil {
		s.AfterDeliver(d, res, to)
	}
	return res, to
}

// Drop removes a datagram.
func (s *Stepper) Drop(d *simnet.Datagram) {
	s.C.Step++
	s.W.Drop(d)
	s.C.Fault("drop")
	s.C.Logf("drop %s", s.desc(d))
}

// Dup duplicates a datagram.
func (s *Stepper) Dup(d *simnet.Datagram) {
	s.C.Step++
	s.W.Duplicate(d)
	s.C.Fault("dup")
	s.C.Logf("dup %s", s.desc(d))
}

// StepFaulty performs one tape-chosen network action with faults enabled.
func (s *Stepper) StepFaulty() {
	synctest.Wait()
	pool := s.Eligible()
	if len(pool) == 0 {
		s.Advance(s.Deltas[s.C.T.Choose(len(s.Deltas), "delta")])
		return
	}
	deliverW := 100 - s.DropW - s.DupW - s.ReorderW - s.AdvanceW
	if deliverW < 1 {
		deliverW = 1
	}
	switch s.C.T.Pick([]int{deliverW, s.ReorderW, s.AdvanceW, s.DropW, s.DupW}, "netact") {
	case 0:
		s.Deliver(pool[0])
	case 1:
		i := s.C.T.Choose(len(pool), "which")
		if i != 0 {
			s.C.Fault("reorder")
		}
		s.Deliver(pool[i])
	case 2:
		i := s.C.T.Choose(len(s.Deltas), "delta")
		if len(pool) > 0 {
			s.C.Fault("delay")
		}
		s.Advance(s.Deltas[i])
	case 3:
		d := pool[s.C.T.Choose(len(pool), "which")]
		if (s.CanFault != nil && !s.CanFault(d)) || (s.CanDrop != nil && !s.CanDrop(d)) {
			s.Deliver(d)
			return
		}
		s.Drop(d)
	case 4:
		d := pool[s.C.T.Choose(len(pool), "which")]
		if s.CanFault != nil && !s.CanFault(d) {
			s.Deliver(d)
			return
		}
		s.Dup(d)
	}
}

// StepFair delivers the oldest datagram, or advances by delta when none is in flight.
func (s *Stepper) StepFair(delta time.Duration) {
	synctest.Wait() // whatever the caller set in motion has been emitted before the pool is looked at
	pool := s.Eligible()
	if s.Latency > 0 {
		// a loss-free network with a constant one-way latency: a datagram is delivered once it is old enough
		now := time.Now()
		ripe := pool[:0:0]
		wait := delta
		for _, d := range pool {
			if age := now.Sub(d.SentAt); age >= s.Latency {
				ripe = append(ripe, d)
			} else if s.Latency-age < wait {
				wait = s.Latency - age
			}
		}
		if len(ripe) == 0 {
			s.Advance(wait)
			return
		}
		pool = ripe
	}
	if len(pool) == 0 {
		s.Advance(delta)
		return
	}
	s.Deliver(oldest(pool))
}

func oldest(pool []*simnet.Datagram) *simnet.Datagram {
	best := pool[0]
	for _, d := range pool[1:] {
		if d.SentAt.Before(best.SentAt) || (d.SentAt.Equal(best.SentAt) && false) {
			best = d
		}
	}
	return best
}

// DrainAll delivers everything in flight in FIFO order (bounded).
func (s *Stepper) DrainAll(max int) {
	for i := 0; i < max; i++ {
		pool := s.Eligible()
		if len(pool) == 0 {
			return
		}
		s.Deliver(oldest(pool))
	}
}
