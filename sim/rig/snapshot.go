package rig

import (
	"fmt"
	"net/netip"
	"sort"
	"strings"
	"time"

	"github.com/pion/ice/v4"
)

// PairSnap is the public view of one candidate pair, keyed by transport addresses.
type PairSnap struct {
	ID                   uint64 // from Conn.GetCandidatePairsInfo (0 when unavailable)
	Local, Remote        string // "net/ip:port"
	LocalType            ice.CandidateType
	RemoteType           ice.CandidateType
	State                ice.CandidatePairState
	Nominated            bool
	ReqSent, ReqRecv     uint64
	RespSent, RespRecv   uint64
	PktsSent, PktsRecv   uint32
	BytesSent, BytesRecv uint64
}

// Key identifies the pair by transport addresses.
func (p PairSnap) Key() string { return p.Local + "<->" + p.Remote }

func (p PairSnap) String() string {
	return fmt.Sprintf("{%s %s/%s st=%s nom=%v req=%d/%d resp=%d/%d pk=%d/%d}", p.Key(), p.LocalType, p.RemoteType, p.State, p.Nominated,
		p.ReqSent, p.ReqRecv, p.RespSent, p.RespRecv, p.PktsSent, p.PktsRecv)
}

// CandSnap is the public view of one candidate.
type CandSnap struct {
	ID       string
	Addr     string
	Type     ice.CandidateType
	Priority uint32
	LastRecv time.Time
}

// Snap is everything publicly observable about an agent at a quiescent point.
type Snap struct {
	Pairs      []PairSnap
	Locals     []CandSnap
	Remotes    []CandSnap
	Selected   string // "local<->remote" or ""
	NStates    int
	NCands     int
	NPairsEv   int
	LastState  ice.ConnectionState
	Gathering  ice.GatheringState
	DupPairIDs bool
}

func statAddr(nt ice.NetworkType, ip string, port int) string {
	a, err := netip.ParseAddr(ip)
	if err != nil {
		return fmt.Sprintf("%s/%s:%d", nt.NetworkShort(), ip, port)
	}
	return fmt.Sprintf("%s/%s", nt.NetworkShort(), netip.AddrPortFrom(a.Unmap(), uint16(port)))
}

// TakeSnap reads the agent's observable state through public getters only.
func TakeSnap(a *AgentH) Snap {
	var s Snap
	idAddr := map[string]string{}
	idType := map[string]ice.CandidateType{}
	for _, cs := range a.A.GetLocalCandidatesStats() {
		ad := statAddr(cs.NetworkType, cs.IP, cs.Port)
		idAddr[cs.ID] = ad
		idType[cs.ID] = cs.CandidateType
		s.Locals = append(s.Locals, CandSnap{ID: cs.ID, Addr: ad, Type: cs.CandidateType, Priority: cs.Priority})
	}
	remotes, _ := a.A.GetRemoteCandidates()
	lastRecv := map[string]time.Time{}
	for _, rc := range remotes {
		lastRecv[rc.ID()] = rc.LastReceived()
	}
	for _, cs := range a.A.GetRemoteCandidatesStats() {
		ad := statAddr(cs.NetworkType, cs.IP, cs.Port)
		idAddr[cs.ID] = ad
		idType[cs.ID] = cs.CandidateType
		s.Remotes = append(s.Remotes, CandSnap{ID: cs.ID, Addr: ad, Type: cs.CandidateType, Priority: cs.Priority, LastRecv: lastRecv[cs.ID]})
	}
	sort.Slice(s.Locals, func(i, j int) bool {
		return s.Locals[i].Addr+s.Locals[i].Type.String() < s.Locals[j].Addr+s.Locals[j].Type.String()
	})
	sort.Slice(s.Remotes, func(i, j int) bool {
		return s.Remotes[i].Addr+s.Remotes[i].Type.String() < s.Remotes[j].Addr+s.Remotes[j].Type.String()
	})
	stats := a.A.GetCandidatePairsStats()
	var infos []ice.CandidatePairInfo
	if a.Conn != nil {
		infos = a.Conn.GetCandidatePairsInfo()
	}
	seenID := map[uint64]bool{}
	for i, ps := range stats {
		p := PairSnap{Local: idAddr[ps.LocalCandidateID], Remote: idAddr[ps.RemoteCandidateID],
			LocalType: idType[ps.LocalCandidateID], RemoteType: idType[ps.RemoteCandidateID],
			State: ps.State, Nominated: ps.Nominated, ReqSent: ps.RequestsSent, ReqRecv: ps.RequestsReceived,
			RespSent: ps.ResponsesSent, RespRecv: ps.ResponsesReceived, PktsSent: ps.PacketsSent, PktsRecv: ps.PacketsReceived,
			BytesSent: ps.BytesSent, BytesRecv: ps.BytesReceived}
		if p.Local == "" {
			p.Local = "?" + ps.LocalCandidateID
		}
		if p.Remote == "" {
			p.Remote = "?" + ps.RemoteCandidateID
		}
		// GetCandidatePairsInfo lists the checklist in the same order as GetCandidatePairsStats.
		if len(infos) == len(stats) {
			p.ID = infos[i].ID
			if seenID[p.ID] {
				s.DupPairIDs = true
			}
			seenID[p.ID] = true
		}
		s.Pairs = append(s.Pairs, p)
	}
	sort.SliceStable(s.Pairs, func(i, j int) bool { return s.Pairs[i].Key() < s.Pairs[j].Key() })
	if l, r, ok := a.SelectedPair(); ok {
		s.Selected = fmt.Sprintf("udp/%s<->udp/%s", l, r)
	}
	a.mu.Lock()
	s.NStates, s.NCands, s.NPairsEv = len(a.States), len(a.Cands), len(a.Selected)
	a.mu.Unlock()
	s.LastState = a.LastState()
	s.Gathering, _ = a.A.GetGatheringState()
	return s
}

// DiffOpts relaxes the comparison narrowly.
type DiffOpts struct {
	// AllowLastRecv lists remote addresses whose LastReceived may advance.
	AllowLastRecv map[string]bool
}

// Diff returns the observable differences between two snapshots.
func Diff(a, b Snap, o DiffOpts) []string {
	var out []string
	add := func(f string, args ...any) { out = append(out, fmt.Sprintf(f, args...)) }
	if len(a.Pairs) != len(b.Pairs) {
		add("pair count %d -> %d", len(a.Pairs), len(b.Pairs))
	}
	bp := map[string]PairSnap{}
	for _, p := range b.Pairs {
		bp[p.Key()] = p
	}
	for _, p := range a.Pairs {
		q, ok := bp[p.Key()]
		if !ok {
			add("pair %s disappeared", p.Key())
			continue
		}
		if p != q {
			add("pair changed %v -> %v", p, q)
		}
		delete(bp, p.Key())
	}
	for k := range bp {
		add("pair %s appeared", k)
	}
	cmpCands := func(kind string, x, y []CandSnap, allow map[string]bool) {
		if len(x) != len(y) {
			add("%s candidate count %d -> %d", kind, len(x), len(y))
			return
		}
		for i := range x {
			cx, cy := x[i], y[i]
			if cx.Addr != cy.Addr || cx.Type != cy.Type || cx.Priority != cy.Priority || cx.ID != cy.ID {
				add("%s candidate changed %v -> %v", kind, cx, cy)
			}
			if !cx.LastRecv.Equal(cy.LastRecv) && !allow[cx.Addr] {
				add("%s candidate %s LastReceived refreshed", kind, cx.Addr)
			}
		}
	}
	cmpCands("local", a.Locals, b.Locals, nil)
	cmpCands("remote", a.Remotes, b.Remotes, o.AllowLastRecv)
	if a.Selected != b.Selected {
		add("selected pair %q -> %q", a.Selected, b.Selected)
	}
	if a.NStates != b.NStates {
		add("connection-state callback fired (%d -> %d)", a.NStates, b.NStates)
	}
	if a.NCands != b.NCands {
		add("candidate callback fired (%d -> %d)", a.NCands, b.NCands)
	}
	if a.NPairsEv != b.NPairsEv {
		add("selected-pair callback fired (%d -> %d)", a.NPairsEv, b.NPairsEv)
	}
	if a.LastState != b.LastState {
		add("state %s -> %s", a.LastState, b.LastState)
	}
	sort.Strings(out)
	return out
}

// Abstract returns a compact abstract state for coverage accounting.
func (s Snap) Abstract() string {
	cnt := map[ice.CandidatePairState]int{}
	for _, p := range s.Pairs {
		cnt[p.State]++
	}
	var parts []string
	for _, st := range []ice.CandidatePairState{ice.CandidatePairStateWaiting, ice.CandidatePairStateInProgress, ice.CandidatePairStateSucceeded, ice.CandidatePairStateFailed} {
		n := cnt[st]
		if n > 2 {
			n = 2
		}
		parts = append(parts, fmt.Sprintf("%d", n))
	}
	return fmt.Sprintf("%s sel=%v pairs=%s", s.LastState, s.Selected != "", strings.Join(parts, "/"))
}
