package rig

import (
	"net/netip"

	"github.com/pion/stun/v3"

	"verif/sim/simnet"
)

// PairKey identifies a pair by transport addresses as seen from one agent.
type PairKey struct{ L, R netip.AddrPort }

// SentReq is a Binding request an agent put on the wire.
type SentReq struct {
	L, R netip.AddrPort
	UC   bool
	Nom  *uint32
	Role string // "controlling" / "controlled" / ""
	// Order: position among the agent's requests in wire order (transaction ids are random: anything that
	// chooses among requests sorts by this)
	Order int
}

// SideLedger is the checker's own record for one agent, built from the wire
// and from deliveries only (independent of the agent's internal bookkeeping).
type SideLedger struct {
	Sent map[[stun.TransactionIDSize]byte]SentReq
	// Validated: an authentic success response matching one of the agent's own requests
	// (transaction id, source = request destination, arrival socket = request source) was delivered.
	Validated map[PairKey]bool
	// UCAnswered: such a response answered a request that carried USE-CANDIDATE.
	UCAnswered map[PairKey]bool
	// NomAnswered: highest nomination value among answered requests per pair.
	NomAnswered map[PairKey]uint32
	// NominatedBy: an authentic request carrying USE-CANDIDATE or a nomination value was delivered on the pair.
	NominatedBy map[PairKey]bool
	// NomValueBy: an authentic request carrying a nomination value was delivered on the pair.
	NomValueBy map[PairKey]bool
	// UnprotectedNomBy: a request with valid MESSAGE-INTEGRITY was delivered on the pair that carries
	// USE-CANDIDATE or a nomination value only BEHIND the MESSAGE-INTEGRITY attribute (covered by nothing).
	UnprotectedNomBy map[PairKey]bool
	// ReqDelivered: any authentic request delivered on the pair.
	ReqDelivered map[PairKey]int
	SentUC       int // Binding requests with USE-CANDIDATE emitted by the agent
	SentReqs     int // Binding requests emitted by the agent
	SentRoles    []string
}

func newSide() *SideLedger {
	return &SideLedger{Sent: map[[stun.TransactionIDSize]byte]SentReq{}, Validated: map[PairKey]bool{}, UCAnswered: map[PairKey]bool{},
		NomAnswered: map[PairKey]uint32{}, NominatedBy: map[PairKey]bool{}, NomValueBy: map[PairKey]bool{}, UnprotectedNomBy: map[PairKey]bool{}, ReqDelivered: map[PairKey]int{}}
}

// Ledger tracks both agents of a Duo.
type Ledger struct {
	d     *Duo
	Side  map[string]*SideLedger // by agent name
	wireN int
	// creds: every (ufrag, pwd) an agent has had (an agent that has not restarted yet still accepts
	// traffic under the old credentials of a peer that already has)
	creds map[string][][2]string
}

func (l *Ledger) noteCreds() {
	for _, ag := range []*AgentH{l.d.A, l.d.B} {
		cur := [2]string{ag.Ufrag, ag.Pwd}
		known := false
		for _, c := range l.creds[ag.Name] {
			if c == cur {
				known = true
			}
		}
		if !known {
			l.creds[ag.Name] = append(l.creds[ag.Name], cur)
		}
	}
}

// NewLedger attaches a ledger to the Duo; call Update at every quiescent point.
func NewLedger(d *Duo) *Ledger {
	l := &Ledger{d: d, Side: map[string]*SideLedger{"A": newSide(), "B": newSide()}, creds: map[string][][2]string{}}
	l.noteCreds()
	prev := d.S.AfterDeliver
	d.S.AfterDeliver = func(dg *simnet.Datagram, res simnet.DeliverResult, to *simnet.Sock) {
		if prev != nil {
			prev(dg, res, to)
		}
		l.scanWire()
		if res == simnet.Delivered && to != nil {
			l.onDeliver(dg, to)
		}
	}
	return l
}

func (l *Ledger) agentOfHost(h *simnet.Host) (*AgentH, *AgentH) {
	if h == l.d.HA {
		return l.d.A, l.d.B
	}
	if h == l.d.HB {
		return l.d.B, l.d.A
	}
	return nil, nil
}

// scanWire records requests newly put on the wire by the agents' own sockets.
func (l *Ledger) scanWire() {
	d := l.d
	l.noteCreds()
	d.W.Lock()
	wire := d.Wire[l.wireN:]
	l.wireN = len(d.Wire)
	d.W.Unlock()
	socks := d.W.Sockets()
	for _, w := range wire {
		if w.D.SockID < 0 || w.D.SockID >= len(socks) || w.D.Dup {
			continue
		}
		ag, _ := l.agentOfHost(socks[w.D.SockID].Host())
		if ag == nil {
			continue
		}
		m := w.Msg()
		if !m.IsSTUN || m.Method != stun.MethodBinding || m.Class != stun.ClassRequest {
			continue
		}
		s := l.Side[ag.Name]
		role := ""
		if m.Controlling != nil {
			role = "controlling"
		} else if m.Controlled != nil {
			role = "controlled"
		}
		s.Sent[m.TxID] = SentReq{L: w.D.Src, R: w.D.Dst, UC: m.UseCandidate, Nom: m.Nomination, Role: role, Order: s.SentReqs}
		s.SentReqs++
		if m.UseCandidate {
			s.SentUC++
		}
		if n := len(s.SentRoles); n == 0 || s.SentRoles[n-1] != role {
			s.SentRoles = append(s.SentRoles, role)
		}
	}
}

// Update must be called at quiescent points that are not deliveries (advance, API calls).
func (l *Ledger) Update() { l.scanWire() }

func (l *Ledger) onDeliver(dg *simnet.Datagram, to *simnet.Sock) {
	ag, peer := l.agentOfHost(to.Host())
	if ag == nil {
		return
	}
	m := Decode(dg.Payload)
	if !m.IsSTUN || m.Method != stun.MethodBinding {
		return
	}
	s := l.Side[ag.Name]
	switch m.Class {
	case stun.ClassSuccessResponse:
		authentic := false
		for _, cr := range l.creds[peer.Name] {
			if stun.MessageIntegrity([]byte(cr[1])).Check(m.M) == nil {
				authentic = true
			}
		}
		if !authentic {
			return
		}
		req, ok := s.Sent[m.TxID]
		if !ok || req.R != dg.Src || req.L != dg.Dst {
			return
		}
		k := PairKey{req.L, req.R}
		s.Validated[k] = true
		if req.UC {
			s.UCAnswered[k] = true
		}
		if req.Nom != nil && *req.Nom >= s.NomAnswered[k] {
			s.NomAnswered[k] = *req.Nom
		}
	case stun.ClassRequest:
		authentic := false
		for _, own := range l.creds[ag.Name] {
			for _, pc := range l.creds[peer.Name] {
				if m.HasUsername && m.Username == own[0]+":"+pc[0] && stun.MessageIntegrity([]byte(own[1])).Check(m.M) == nil {
					authentic = true
				}
			}
		}
		if !authentic {
			return
		}
		k := PairKey{dg.Dst, dg.Src}
		s.ReqDelivered[k]++
		if m.UseCandidate || m.Nomination != nil {
			s.NominatedBy[k] = true
		}
		if m.Nomination != nil {
			s.NomValueBy[k] = true
		}
		if m.TrailingUnauthenticated && !m.UseCandidate && m.Nomination == nil &&
			(m.M.Contains(stun.AttrUseCandidate) || m.M.Contains(NominationAttr)) {
			s.UnprotectedNomBy[k] = true
		}
	}
}

// PairPriority is RFC 8445 §6.1.2.3: 2^32*MIN(G,D) + 2*MAX(G,D) + (G>D?1:0).
func PairPriority(g, d uint32) uint64 {
	mn, mx := uint64(g), uint64(d)
	if mn > mx {
		mn, mx = mx, mn
	}
	var b uint64
	if g > d {
		b = 1
	}
	return mn<<32 + 2*mx + b
}
