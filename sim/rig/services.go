package rig

import (
	"context"
	"errors"
	"fmt"
	"net"
	"net/netip"
	"sync"
	"time"

	"github.com/pion/ice/v4"
	"github.com/pion/stun/v3"
	"github.com/pion/turn/v5"

	"verif/sim/simnet"
)

// StunServer is a simulator-owned STUN server: it answers Binding requests with
// XOR-MAPPED-ADDRESS = observed source. The reply is just another in-flight datagram.
type StunServer struct {
	Sock     *simnet.Sock
	Addr     netip.AddrPort
	Requests int
	// Mute makes the server swallow requests (reply never).
	Mute bool
}

// NewStunServer binds a STUN server on host h.
func NewStunServer(h *simnet.Host, addr string) *StunServer {
	s := &StunServer{Addr: netip.MustParseAddrPort(addr)}
	s.Sock = h.OpenServiceSock(s.Addr, func(d *simnet.Datagram) {
		m := Decode(d.Payload)
		if !m.IsSTUN || m.Class != stun.ClassRequest || m.Method != stun.MethodBinding {
			return
		}
		s.Requests++
		if s.Mute {
			return
		}
		src := d.Src
		spec := MsgSpec{Method: stun.MethodBinding, Class: stun.ClassSuccessResponse, TxID: &m.TxID, XorAddr: &src,
			Integrity: IntAbsent, Fingerprint: FpAbsent}
		s.Sock.SendFrom(d.Src, spec.Build())
	})
	return s
}

// ---------------------------------------------------------------------------
// TURN stub

// TurnStub replaces pion/turn's client during relay gathering (through the tagged seam
// VerifWithTURNClientFactory). Listen/Allocate/Close act on simnet; Allocate parks until the
// simulator releases it and may be failed by it.
type TurnStub struct {
	// Deallocated / Undeallocated: allocations whose relayed connection was closed while the client's control
	// connection was still open (released on the server) / after it was closed (the allocation stays on the
	// server until its lifetime runs out)
	Deallocated, Undeallocated int
	// RelayCloseErr, if set, makes Close of every relayed connection return this error.
	RelayCloseErr error
	W             *simnet.World
	RelayHost     *simnet.Host
	RelayIP       string

	mu      sync.Mutex
	Clients []*TurnClientStub
	// ListenErr / FactoryErr fail the corresponding call when set.
	ListenErr  error
	FactoryErr error
	// ParkAllocate makes Allocate park until released by the simulator ("turn-allocate" park).
	ParkAllocate bool
}

// TurnClientStub is one TURN client created by the agent.
type TurnClientStub struct {
	stub       *TurnStub
	Cfg        *turn.ClientConfig
	Listened   bool
	Allocated  []net.PacketConn
	CloseCalls int
}

var errTurnAllocate = errors.New("simulated allocation failure")

// Option returns the agent option installing the stub.
func (t *TurnStub) Option() ice.AgentOption {
	return ice.VerifWithTURNClientFactory(func(cfg *turn.ClientConfig) (ice.VerifTURNClient, error) {
		t.mu.Lock()
		defer t.mu.Unlock()
		if t.FactoryErr != nil {
			return nil, t.FactoryErr
		}
		c := &TurnClientStub{stub: t, Cfg: cfg}
		t.Clients = append(t.Clients, c)
		return c, nil
	})
}

// Listen implements the TURN client interface.
func (c *TurnClientStub) Listen() error {
	c.stub.mu.Lock()
	defer c.stub.mu.Unlock()
	if c.stub.ListenErr != nil {
		return c.stub.ListenErr
	}
	c.Listened = true
	return nil
}

// Allocate implements the TURN client interface: a simulated socket on the relay host.
func (c *TurnClientStub) Allocate() (net.PacketConn, error) {
	if c.stub.ParkAllocate {
		key := ""
		if c.Cfg != nil && c.Cfg.Conn != nil {
			key = c.Cfg.Conn.LocalAddr().String()
		}
		if p := c.stub.W.ParkHere("turn-allocate", key); p.Fail != nil {
			return nil, p.Fail
		}
	}
	conn, err := c.stub.RelayHost.Net().ListenPacket("udp4", net.JoinHostPort(c.stub.RelayIP, "0"))
	if err != nil {
		return nil, fmt.Errorf("%w: %v", errTurnAllocate, err)
	}
	if c.stub.RelayCloseErr != nil {
		// teardown fault: closing the relayed connection reports an error (the Refresh(0) of a real TURN
		// client fails when the network is gone); the socket is closed anyway
		if so := c.stub.W.FindSockAnywhere(netip.MustParseAddrPort(conn.LocalAddr().String())); so != nil {
			c.stub.W.Lock()
			so.CloseErr = c.stub.RelayCloseErr
			c.stub.W.Unlock()
		}
	}
	c.stub.mu.Lock()
	c.Allocated = append(c.Allocated, conn)
	c.stub.mu.Unlock()
	// like pion/turn's relayed connection: closing it releases the allocation on the server by a Refresh with
	// lifetime 0 sent through the client's control connection - which must still be open at that moment
	return &allocConn{PacketConn: conn, client: c}, nil
}

type allocConn struct {
	net.PacketConn
	client *TurnClientStub
	once   sync.Once
}

// Close releases the allocation if the control connection still exists, and closes the relayed socket.
func (a *allocConn) Close() error {
	a.once.Do(func() {
		a.client.stub.mu.Lock()
		if a.client.CloseCalls > 0 {
			a.client.stub.Undeallocated++
		} else {
			a.client.stub.Deallocated++
		}
		a.client.stub.mu.Unlock()
	})
	return a.PacketConn.Close()
}

// Close implements the TURN client interface.
func (c *TurnClientStub) Close() {
	c.stub.mu.Lock()
	c.CloseCalls++
	c.stub.mu.Unlock()
}

// Snapshot returns the clients created so far.
func (t *TurnStub) Snapshot() []*TurnClientStub {
	t.mu.Lock()
	defer t.mu.Unlock()
	return append([]*TurnClientStub(nil), t.Clients...)
}

// ---------------------------------------------------------------------------
// counting mux wrappers (handles handed out vs handles released)

// CountedConn wraps a PacketConn handed out by a mux and counts Close calls.
type CountedConn struct {
	net.PacketConn
	mux    *CountingUDPMux
	Ufrag  string
	mu     sync.Mutex
	Closes int
}

// Close counts and forwards.
func (c *CountedConn) Close() error {
	c.mu.Lock()
	c.Closes++
	c.mu.Unlock()
	return c.PacketConn.Close()
}

// ReadFromAddrPort / WriteToAddrPort forward the optional fast path when the inner conn has it.
func (c *CountedConn) inner() ice.AddrPortReaderWriter {
	ap, _ := c.PacketConn.(ice.AddrPortReaderWriter)
	return ap
}

// CountingUDPMux decorates an ice.UDPMux and records handed-out handles and removals.
type CountingUDPMux struct {
	ice.UDPMux
	mu      sync.Mutex
	Handles []*CountedConn
	Removed map[string]int
}

// NewCountingUDPMux wraps m.
func NewCountingUDPMux(m ice.UDPMux) *CountingUDPMux {
	return &CountingUDPMux{UDPMux: m, Removed: map[string]int{}}
}

// GetConn hands out a counted handle.
func (m *CountingUDPMux) GetConn(ufrag string, addr net.Addr) (net.PacketConn, error) {
	c, err := m.UDPMux.GetConn(ufrag, addr)
	if err != nil {
		return nil, err
	}
	cc := &CountedConn{PacketConn: c, mux: m, Ufrag: ufrag}
	m.mu.Lock()
	m.Handles = append(m.Handles, cc)
	m.mu.Unlock()
	return cc, nil
}

// RemoveConnByUfrag counts and forwards.
func (m *CountingUDPMux) RemoveConnByUfrag(ufrag string) {
	m.mu.Lock()
	m.Removed[ufrag]++
	m.mu.Unlock()
	m.UDPMux.RemoveConnByUfrag(ufrag)
}

// Unreleased lists handles that were neither closed nor had their ufrag removed.
func (m *CountingUDPMux) Unreleased() []string {
	m.mu.Lock()
	defer m.mu.Unlock()
	var out []string
	for _, h := range m.Handles {
		h.mu.Lock()
		cl := h.Closes
		h.mu.Unlock()
		if cl == 0 && m.Removed[h.Ufrag] == 0 {
			out = append(out, fmt.Sprintf("%s@%s", h.Ufrag, h.LocalAddr()))
		}
	}
	return out
}

// CountingUniversalUDPMux decorates an ice.UniversalUDPMux: the handles it hands out per (ufrag, STUN URL) are
// released only by closing them (the mux keys them by ufrag+url, RemoveConnByUfrag(ufrag) does not reach them).
type CountingUniversalUDPMux struct {
	ice.UniversalUDPMux
	mu      sync.Mutex
	Handles []*CountedConn
	URLs    []string
}

// NewCountingUniversalUDPMux wraps m.
func NewCountingUniversalUDPMux(m ice.UniversalUDPMux) *CountingUniversalUDPMux {
	return &CountingUniversalUDPMux{UniversalUDPMux: m}
}

// GetConnForURL hands out a counted handle.
func (m *CountingUniversalUDPMux) GetConnForURL(ufrag, url string, addr net.Addr) (net.PacketConn, error) {
	c, err := m.UniversalUDPMux.GetConnForURL(ufrag, url, addr)
	if err != nil {
		return nil, err
	}
	cc := &CountedConn{PacketConn: c, Ufrag: ufrag}
	m.mu.Lock()
	m.Handles = append(m.Handles, cc)
	m.URLs = append(m.URLs, url)
	m.mu.Unlock()
	return cc, nil
}

// GetXORMappedAddrContext forwards the cancellable lookup when the inner mux has it.
func (m *CountingUniversalUDPMux) GetXORMappedAddrContext(ctx context.Context, a net.Addr, d time.Duration) (*stun.XORMappedAddress, error) {
	type getter interface {
		GetXORMappedAddrContext(context.Context, net.Addr, time.Duration) (*stun.XORMappedAddress, error)
	}
	if g, ok := m.UniversalUDPMux.(getter); ok {
		return g.GetXORMappedAddrContext(ctx, a, d)
	}
	return m.UniversalUDPMux.GetXORMappedAddr(a, d)
}

// Unreleased lists handles that were never closed.
func (m *CountingUniversalUDPMux) Unreleased() []string {
	m.mu.Lock()
	defer m.mu.Unlock()
	var out []string
	for i, h := range m.Handles {
		h.mu.Lock()
		cl := h.Closes
		h.mu.Unlock()
		if cl == 0 {
			out = append(out, fmt.Sprintf("%s+%s@%s", h.Ufrag, m.URLs[i], h.LocalAddr()))
		}
	}
	return out
}

// CountingTCPMux decorates an ice.TCPMux and records handed-out handles and removals.
type CountingTCPMux struct {
	ice.TCPMux
	mu      sync.Mutex
	Handles []*CountedConn
	Removed map[string]int
}

// NewCountingTCPMux wraps m.
func NewCountingTCPMux(m ice.TCPMux) *CountingTCPMux {
	return &CountingTCPMux{TCPMux: m, Removed: map[string]int{}}
}

// GetConnByUfrag hands out a counted handle.
func (m *CountingTCPMux) GetConnByUfrag(ufrag string, isIPv6 bool, local net.IP) (net.PacketConn, error) {
	c, err := m.TCPMux.GetConnByUfrag(ufrag, isIPv6, local)
	if err != nil {
		return nil, err
	}
	cc := &CountedConn{PacketConn: c, Ufrag: ufrag}
	m.mu.Lock()
	m.Handles = append(m.Handles, cc)
	m.mu.Unlock()
	return cc, nil
}

// RemoveConnByUfrag counts and forwards.
func (m *CountingTCPMux) RemoveConnByUfrag(ufrag string) {
	m.mu.Lock()
	m.Removed[ufrag]++
	m.mu.Unlock()
	m.TCPMux.RemoveConnByUfrag(ufrag)
}

// LocalAddr forwards the optional address provider of the wrapped mux.
func (m *CountingTCPMux) LocalAddr() net.Addr {
	if p, ok := m.TCPMux.(interface{ LocalAddr() net.Addr }); ok {
		return p.LocalAddr()
	}
	return nil
}

// Unreleased lists handles that were neither closed nor had their ufrag removed.
func (m *CountingTCPMux) Unreleased() []string {
	m.mu.Lock()
	defer m.mu.Unlock()
	var out []string
	for _, h := range m.Handles {
		h.mu.Lock()
		cl := h.Closes
		h.mu.Unlock()
		if cl == 0 && m.Removed[h.Ufrag] == 0 {
			out = append(out, fmt.Sprintf("%s@%s", h.Ufrag, h.LocalAddr()))
		}
	}
	return out
}
