package rig

import (
	"fmt"
	"net/netip"
	"strconv"
	"strings"
	"testing/synctest"
	"time"

	"github.com/pion/ice/v4"
	"github.com/pion/stun/v3"

	"verif/sim/core"
	"verif/sim/simnet"
)

// Duo is two real agents on two simulated hosts.
type Duo struct {
	// SignalPrioOffset is added to the priority of every candidate handed over by Signal (0 = as gathered).
	SignalPrioOffset uint32
	C                *core.Ctx
	W                *simnet.World
	S                *Stepper
	Tx               *TxNames
	A                *AgentH
	B                *AgentH
	HA               *simnet.Host
	HB               *simnet.Host
	// Blocked holds directed (srcIP,dstIP) pairs that cannot communicate.
	Blocked map[[2]netip.Addr]bool
	Start   time.Time
	// Wire is every datagram that entered the network, in send order per socket (append order overall).
	Wire []*WireEv
	// Delivered maps datagram id -> true once it was handed to a socket.
	Delivered map[uint64]bool
	// Stun is the simulated STUN server (only with NAT topologies).
	Stun *StunServer
	// AroundSignal, when set, wraps every Signal (for before/after oracles).
	AroundSignal func(from, to *AgentH, c ice.Candidate, do func())
}

// WireEv is one datagram seen on the wire.
type WireEv struct {
	At  time.Duration
	D   *simnet.Datagram
	msg *Msg
}

// Msg decodes the datagram lazily.
func (w *WireEv) Msg() Msg {
	if w.msg == nil {
		m := Decode(w.D.Payload)
		w.msg = &m
	}
	return *w.msg
}

// DuoCfg configures a Duo.
type DuoCfg struct {
	AddrsA, AddrsB []string
	// AliasA/B: external 1:1 address used for srflx address-rewrite candidates ("" = none).
	AliasA, AliasB string
	OptsA, OptsB   []ice.AgentOption
	// NATA/NATB put the host behind a NAT of that kind (0 = none, otherwise simnet.NATKind+1) and add a
	// STUN server (srflx candidates are then gathered with a real STUN exchange).
	NATA, NATB int
	// RelayA/RelayB give the agent a relay candidate (TURN stub allocating on a relay host).
	RelayA, RelayB bool
	// ConfigA/ConfigB: build the agent with the AgentConfig constructor instead of options (Opts* are then unused).
	ConfigA, ConfigB *ice.AgentConfig
}

// NewDuo builds the world and both agents (not yet gathering).
func NewDuo(c *core.Ctx, cfg DuoCfg) (*Duo, error) {
	d := &Duo{C: c, W: simnet.NewWorld(), Tx: &TxNames{}, Blocked: map[[2]netip.Addr]bool{}, Start: time.Now()}
	d.W.ParkListens = true
	d.W.Reach = func(src, dst netip.AddrPort) bool {
		return !d.Blocked[[2]netip.Addr{src.Addr(), dst.Addr()}]
	}
	d.Delivered = map[uint64]bool{}
	d.W.OnSend = func(dg *simnet.Datagram) {
		d.Wire = append(d.Wire, &WireEv{At: time.Since(d.Start), D: dg})
	}
	d.W.OnDeliver = func(dg *simnet.Datagram, _ *simnet.Sock) { d.Delivered[dg.ID] = true }
	d.S = &Stepper{C: c, W: d.W, Describe: d.Tx.Describe,
		Deltas: []time.Duration{time.Millisecond, 5 * time.Millisecond, 20 * time.Millisecond, 50 * time.Millisecond, 200 * time.Millisecond}}
	d.HA = d.W.SimpleHost("A", cfg.AddrsA...)
	d.HB = d.W.SimpleHost("B", cfg.AddrsB...)
	natPriv := map[netip.Addr]bool{}
	var stunOpt []ice.AgentOption
	if cfg.NATA != 0 || cfg.NATB != 0 || cfg.RelayA || cfg.RelayB {
		// (a turn: URL also serves as STUN server for srflx gathering)
		srv := d.W.SimpleHost("S", "203.0.113.5")
		d.Stun = NewStunServer(srv, "203.0.113.5:3478")
		u, _ := stun.ParseURI("stun:203.0.113.5:3478")
		stunOpt = []ice.AgentOption{ice.WithUrls([]*stun.URI{u}), ice.WithSTUNGatherTimeout(300 * time.Millisecond)}
	}
	if cfg.NATA != 0 {
		d.HA.NAT = simnet.NewNAT(simnet.NATKind(cfg.NATA-1), "203.0.113.1")
		for _, ip := range d.HA.IPs() {
			natPriv[ip] = true
		}
	}
	if cfg.NATB != 0 {
		d.HB.NAT = simnet.NewNAT(simnet.NATKind(cfg.NATB-1), "203.0.113.2")
		for _, ip := range d.HB.IPs() {
			natPriv[ip] = true
		}
	}
	if len(natPriv) > 0 {
		// private addresses behind a NAT are not routable from outside
		inner := d.W.Reach
		d.W.Reach = func(src, dst netip.AddrPort) bool { return !natPriv[dst.Addr()] && inner(src, dst) }
	}
	mk := func(name string, h *simnet.Host, alias string, opts []ice.AgentOption) (*AgentH, error) {
		o := []ice.AgentOption{ice.WithNetworkTypes([]ice.NetworkType{ice.NetworkTypeUDP4})}
		if alias != "" {
			h.Alias = netip.MustParseAddr(alias)
			o = append(o, ice.WithAddressRewriteRules(ice.AddressRewriteRule{
				External: []string{alias}, AsCandidateType: ice.CandidateTypeServerReflexive,
			}))
		}
		if h.NAT != nil {
			o = append(o, stunOpt...)
		}
		if (name == "A" && cfg.RelayA) || (name == "B" && cfg.RelayB) {
			ip := map[string]string{"A": "203.0.113.9", "B": "203.0.113.10"}[name]
			rh := d.W.SimpleHost("R"+name, ip)
			ts := &TurnStub{W: d.W, RelayHost: rh, RelayIP: ip}
			u, _ := stun.ParseURI("turn:203.0.113.5:3478?transport=udp")
			u.Username, u.Password = "user", "pass"
			// the turn: URL doubles as STUN server for srflx gathering (a second stun: URL would start a
			// second, indistinguishable srflx gatherer: their listens could not be ordered canonically)
			urls := []*stun.URI{u}
			o = append(o, ts.Option(), ice.WithUrls(urls), ice.WithRelayAcceptanceMinWait(0), ice.WithSTUNGatherTimeout(300*time.Millisecond))
		}
		if c := map[string]*ice.AgentConfig{"A": cfg.ConfigA, "B": cfg.ConfigB}[name]; c != nil {
			// the AgentConfig constructor: no options can be combined with it, so only plain host setups
			c.NetworkTypes = []ice.NetworkType{ice.NetworkTypeUDP4}
			return NewAgentFromConfig(name, h, d.Start, c)
		}
		return NewAgent(name, h, d.Start, append(o, opts...)...)
	}
	ice.VerifSeedGlobalRand(1)
	var err error
	if d.A, err = mk("A", d.HA, cfg.AliasA, cfg.OptsA); err != nil {
		return nil, fmt.Errorf("agent A: %w", err)
	}
	c.Defer(func() { CloseReleasing(d.W, d.A.A) })
	if d.B, err = mk("B", d.HB, cfg.AliasB, cfg.OptsB); err != nil {
		return nil, fmt.Errorf("agent B: %w", err)
	}
	c.Defer(func() { CloseReleasing(d.W, d.B.A) })
	return d, nil
}

// Gather runs GatherCandidates on an agent until the nil candidate arrives (bounded).
func (d *Duo) Gather(a *AgentH) error {
	n0 := len(a.CandSeq())
	if err := a.A.GatherCandidates(); err != nil {
		return err
	}
	for i := 0; i < 200; i++ {
		d.S.Settle()
		cs := a.CandSeq()
		if len(cs) > n0 && cs[len(cs)-1] == nil {
			return nil
		}
		if d.Stun != nil {
			// STUN exchanges of the gatherers (and their replies) are served at once
			for _, dg := range d.W.InFlight() {
				if dg.Dst == d.Stun.Addr || dg.Src == d.Stun.Addr {
					d.S.Deliver(dg)
				}
			}
		}
		d.S.Advance(10 * time.Millisecond)
	}
	return fmt.Errorf("gathering of %s did not complete", a.Name)
}

// Signal hands one local candidate of `from` to `to` (through its textual form).
func (d *Duo) Signal(from, to *AgentH, c ice.Candidate) error {
	line := c.Marshal()
	if d.SignalPrioOffset != 0 {
		// the peer's signalling states priorities in the upper half of the 32-bit field (same order, same gaps)
		if f := strings.Fields(line); len(f) > 3 {
			if p, perr := strconv.ParseUint(f[3], 10, 32); perr == nil && p+uint64(d.SignalPrioOffset) <= 0xffffffff {
				f[3] = strconv.FormatUint(p+uint64(d.SignalPrioOffset), 10)
				line = strings.Join(f, " ")
			}
		}
	}
	rc, err := ice.UnmarshalCandidate(line)
	if err != nil {
		return err
	}
	d.C.Logf("signal %s->%s %s %s", from.Name, to.Name, c.Type(), CandAddr(c))
	if d.AroundSignal != nil {
		var err error
		d.AroundSignal(from, to, rc, func() {
			err = to.A.AddRemoteCandidate(rc)
			d.S.Settle()
		})
		return err
	}
	// AddRemoteCandidate hands the candidate to the loop from a goroutine of its own: settle after each
	// one, otherwise two candidates signalled back to back race for the loop (pair order would differ).
	err = to.A.AddRemoteCandidate(rc)
	d.S.Settle()
	return err
}

// Reachable reports whether src->dst is allowed by the matrix.
func (d *Duo) Reachable(src, dst netip.Addr) bool {
	return !d.Blocked[[2]netip.Addr{src, dst}]
}

// Bidirectional reports whether the candidate address pair works both ways.
func (d *Duo) Bidirectional(l, r netip.Addr) bool {
	return d.Reachable(l, r) && d.Reachable(r, l)
}

// CloseReleasing closes an agent from a helper goroutine while releasing callers parked in the simulated
// network (a gatherer parked in a simulated listen would otherwise keep Close waiting for ever).
func CloseReleasing(w *simnet.World, a *ice.Agent) bool {
	done := make(chan struct{})
	go func() {
		_ = a.Close()
		close(done)
	}()
	for i := 0; i < 400; i++ {
		synctest.Wait()
		select {
		case <-done:
			for p := w.Parked(); len(p) > 0; p = w.Parked() {
				w.Release(p[0])
				synctest.Wait()
			}
			return true
		default:
		}
		if p := w.Parked(); len(p) > 0 {
			w.Release(p[0])
			continue
		}
		time.Sleep(50 * time.Millisecond)
	}
	return false
}
