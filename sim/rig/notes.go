package rig

import (
	"fmt"
	"runtime"
	"strings"
	"sync"
	"time"

	"github.com/pion/ice/v4"

	"verif/sim/core"
)

// NoteEv is one verifhook.Note event.
type NoteEv struct {
	At   time.Duration
	Site string
	V    any
}

// Notes collects verifhook.Note events of one run.
type Notes struct {
	mu    sync.Mutex
	start time.Time
	evs   []NoteEv
	// offLoop: first call of one of the agent's loop-owned functions (site "agent.state") from a goroutine that
	// is not the agent's task loop
	offLoop string
	touches int
}

// offLoopCaller inspects the stack of the caller of a Note("agent.state") site: the loop-owned functions of the
// agent run under taskloop.(*Loop).runLoop (tasks and the close callback) and nowhere else. It returns a
// description of the call chain when runLoop is not on the stack.
func offLoopCaller() string {
	var pcs [64]uintptr
	n := runtime.Callers(4, pcs[:])
	frames := runtime.CallersFrames(pcs[:n])
	var chain []string
	for {
		f, more := frames.Next()
		if strings.Contains(f.Function, "taskloop.(*Loop).runLoop") {
			return ""
		}
		if len(chain) < 6 && f.Function != "" {
			name := f.Function
			if i := strings.LastIndex(name, "/"); i >= 0 {
				name = name[i+1:]
			}
			chain = append(chain, fmt.Sprintf("%s:%d", name, f.Line))
		}
		if !more {
			break
		}
	}
	return strings.Join(chain, " <- ")
}

// InstallNotes installs the observer for this run; it is removed when the run ends.
func InstallNotes(c *core.Ctx) *Notes {
	n := &Notes{start: time.Now().Add(-c.Now())}
	ice.VerifSetNote(func(site string, v any) {
		if site == "agent.state" {
			off := offLoopCaller()
			n.mu.Lock()
			n.touches++
			if off != "" && n.offLoop == "" {
				n.offLoop = off
			}
			n.mu.Unlock()
			return
		}
		n.mu.Lock()
		n.evs = append(n.evs, NoteEv{At: time.Since(n.start), Site: site, V: v})
		n.mu.Unlock()
	})
	c.Defer(func() { ice.VerifSetNote(nil) })
	return n
}

// Take returns and clears the collected events.
func (n *Notes) Take() []NoteEv {
	n.mu.Lock()
	defer n.mu.Unlock()
	out := n.evs
	n.evs = nil
	return out
}

// Len returns how many events were collected so far (and not yet taken).
func (n *Notes) Len() int {
	n.mu.Lock()
	defer n.mu.Unlock()
	return len(n.evs)
}

// OffLoop returns the call chain of the first touch of loop-owned agent state from outside the task loop ("" if
// none) and how many touches were inspected.
func (n *Notes) OffLoop() (string, int) {
	n.mu.Lock()
	defer n.mu.Unlock()
	return n.offLoop, n.touches
}
