package rig

import (
	"sync"
	"time"

	"github.com/pion/ice/v4"

	"verif/sim/core"
)

// NoteEv is one verifhook.Note event.
type NoteEv struct {
	At   time.Duration
	Site string
	V    any
}

// Notes collects verifhook.Note events of one run.
type Notes struct {
	mu    sync.Mutex
	start time.Time
	evs   []NoteEv
}

// InstallNotes installs the observer for this run; it is removed when the run ends.
func InstallNotes(c *core.Ctx) *Notes {
	n := &Notes{start: time.Now().Add(-c.Now())}
	ice.VerifSetNote(func(site string, v any) {
		n.mu.Lock()
		n.evs = append(n.evs, NoteEv{At: time.Since(n.start), Site: site, V: v})
		n.mu.Unlock()
	})
	c.Defer(func() { ice.VerifSetNote(nil) })
	return n
}

// Take returns and clears the collected events.
func (n *Notes) Take() []NoteEv {
	n.mu.Lock()
	defer n.mu.Unlock()
	out := n.evs
	n.evs = nil
	return out
}

// Len returns how many events were collected so far (and not yet taken).
func (n *Notes) Len() int {
	n.mu.Lock()
	defer n.mu.Unlock()
	return len(n.evs)
}
