// Package sched decides which goroutine runs next. The code under test calls
// verifhook.Yield(site) at its racy windows (build tag verif); with a Sched installed
// the caller parks on a channel and the simulator, after reaching quiescence with
// synctest.Wait, releases exactly one parked goroutine chosen by the tape.
//
// Rules: a Yield site must be reachable with no mutex / sync.Once held (mutex waits are
// not durable blocks, synctest.Wait would hang); run the process with GOMAXPROCS=1 and
// GODEBUG=asyncpreemptoff=1 so that the arrival order of goroutines at park sites is a
// function of the program.
package sched

import (
	"fmt"
	"runtime"
	"runtime/debug"
	"sort"
	"sync"
	"testing/synctest"

	"github.com/pion/ice/v4"

	"verif/sim/core"
	"verif/sim/tape"
)

type parked struct {
	site string
	seq  uint64
	ch   chan struct{}
}

// Sched is a cooperative goroutine scheduler for one run.
type Sched struct {
	c       *core.Ctx
	mu      sync.Mutex
	parked  []*parked
	seq     uint64
	enabled map[string]bool // nil = all sites enabled
	// Disabled sites never park, whatever `enabled` says (set before the run starts goroutines).
	Disabled map[string]bool
	off     bool
	pass    int // >0: every Yield returns at once (the root goroutine is making calls of its own)
	// T is the tape that decides ties handed to the simulator by the code under test (default: the run's tape).
	T *tape.Tape
	// Picks counts those decisions.
	Picks int
	// Parks counts how often each site parked a goroutine.
	Parks map[string]int
	// MaxParked is the largest number of simultaneously parked goroutines seen at a decision.
	MaxParked int
}

// Install creates a scheduler and installs it as the Yield hook for this run.
// sites == nil enables every site; otherwise only the listed ones park.
func Install(c *core.Ctx, sites []string) *Sched {
	s := &Sched{c: c, Parks: map[string]int{}, T: c.T}
	if sites != nil {
		s.enabled = map[string]bool{}
		for _, x := range sites {
			s.enabled[x] = true
		}
	}
	// Keep the garbage collector out of scheduled runs: a collection stops the world and requeues the
	// running goroutine behind the others, so the arrival order at park sites (the tie-breaker of the
	// canonical order) would depend on heap pacing. Collections happen between runs instead.
	if c.Run%16 == 0 {
		runtime.GC()
	}
	oldGC := debug.SetGCPercent(-1)
	c.Defer(func() { debug.SetGCPercent(oldGC) })
	ice.VerifSetYield(s.yield)
	// a submission to the loop whose context is already cancelled while the hand-off is possible too: the
	// runtime's select would choose at random, the tape chooses instead
	ice.VerifSetPick(func(site string, n int) int {
		s.mu.Lock()
		off := s.off
		s.Picks++
		s.mu.Unlock()
		if off {
			return -1
		}
		return s.T.Choose(n, "pick")
	})
	c.Defer(func() {
		ice.VerifSetPick(nil)
		// never unwind with goroutines still parked: release everything, then remove the hook
		s.Drain()
		ice.VerifSetYield(nil)
	})
	return s
}

func (s *Sched) yield(site string) {
	s.mu.Lock()
	if s.off || s.pass > 0 || s.Disabled[site] || (s.enabled != nil && !s.enabled[site]) {
		s.mu.Unlock()
		return
	}
	p := &parked{site: site, seq: s.seq, ch: make(chan struct{})}
	s.seq++
	s.parked = append(s.parked, p)
	s.Parks[site]++
	s.mu.Unlock()
	<-p.ch
}

// Yield lets harness tasks park at their own sites.
func (s *Sched) Yield(site string) { s.yield(site) }

func (s *Sched) sorted() []*parked {
	s.mu.Lock()
	defer s.mu.Unlock()
	out := append([]*parked(nil), s.parked...)
	sort.SliceStable(out, func(i, j int) bool {
		if out[i].site != out[j].site {
			return out[i].site < out[j].site
		}
		return out[i].seq < out[j].seq
	})
	return out
}

// NumParked returns how many goroutines are parked right now.
func (s *Sched) NumParked() int {
	s.mu.Lock()
	defer s.mu.Unlock()
	return len(s.parked)
}

// Sites returns the sites of the parked goroutines in canonical order.
func (s *Sched) Sites() []string {
	var out []string
	for _, p := range s.sorted() {
		out = append(out, p.site)
	}
	return out
}

func (s *Sched) release(p *parked) {
	s.mu.Lock()
	for i, q := range s.parked {
		if q == p {
			s.parked = append(s.parked[:i], s.parked[i+1:]...)
			break
		}
	}
	s.mu.Unlock()
	close(p.ch)
}

// Step waits for quiescence, then releases one parked goroutine chosen by the tape.
// It returns false when nothing is parked (the system is idle or finished).
func (s *Sched) Step() bool {
	synctest.Wait()
	ps := s.sorted()
	if len(ps) == 0 {
		return false
	}
	if len(ps) > s.MaxParked {
		s.MaxParked = len(ps)
	}
	if len(ps) > 1 {
		s.c.MarkNontrivial()
	}
	i := s.c.T.Choose(len(ps), "sched")
	s.c.Step++
	s.c.Logf("run %s#%d of %d", ps[i].site, i, len(ps))
	s.release(ps[i])
	return true
}

// ReleaseSite releases the first goroutine parked at the given site, if any.
func (s *Sched) ReleaseSite(site string) bool {
	for _, p := range s.sorted() {
		if p.site == site {
			s.release(p)
			return true
		}
	}
	return false
}

// Run steps until nothing is parked or max steps were taken; returns the steps taken.
func (s *Sched) Run(max int) int {
	n := 0
	for n < max && s.Step() {
		n++
	}
	synctest.Wait()
	return n
}

// Drain turns the scheduler off and releases everything that is parked (bounded).
func (s *Sched) Drain() {
	s.mu.Lock()
	s.off = true
	s.mu.Unlock()
	for i := 0; i < 100000; i++ {
		ps := s.sorted()
		if len(ps) == 0 {
			return
		}
		for _, p := range ps {
			s.release(p)
		}
	}
}

// Describe summarises what is parked (for violation messages).
func (s *Sched) Describe() string {
	return fmt.Sprintf("%v", s.Sites())
}

// Exempt runs fn with the park sites switched off: the root goroutine of a run must never park itself, so
// its own API calls (and whatever runs concurrently while it waits for them) pass the sites freely.
func (s *Sched) Exempt(fn func()) {
	s.SetPass(true)
	defer s.SetPass(false)
	fn()
}

// SetPass switches the park sites off (true) or on again (false); calls nest.
func (s *Sched) SetPass(on bool) {
	s.mu.Lock()
	if on {
		s.pass++
	} else if s.pass > 0 {
		s.pass--
	}
	s.mu.Unlock()
}

// ReleaseIdx releases the i-th parked goroutine in canonical order; returns its site ("" if out of range).
func (s *Sched) ReleaseIdx(i int) string {
	ps := s.sorted()
	if i < 0 || i >= len(ps) {
		return ""
	}
	if len(ps) > s.MaxParked {
		s.MaxParked = len(ps)
	}
	s.release(ps[i])
	return ps[i].site
}

// Uninstall releases everything and removes the hook (for checks that build several rigs per run).
func (s *Sched) Uninstall() {
	s.Drain()
	ice.VerifSetYield(nil)
	ice.VerifSetPick(nil)
}
