package checks

import (
	"context"
	"fmt"
	"runtime"
	"sync"
	"sync/atomic"
	"testing/synctest"
	"time"

	"github.com/pion/ice/v4"

	"verif/sim/core"
	"verif/sim/rig"
	"verif/sim/sched"
	"verif/sim/simnet"
)

func init() {
	core.Register(&core.Spec{ID: "C10", Fn: runC10, HangIsViolation: true})
}

// runC10: part 1 drives the real task loop under the seeded goroutine scheduler (Yield hooks);
// part 2 calls the public API while the agent's loop goroutine is parked in the middle of a task.
func runC10(c *core.Ctx) {
	if c.T.Bias(1, 6, "part2") {
		if c.T.Bias(1, 4, "part4") {
			c.Knob("part", 4)
			runC10Owner(c)
			return
		}
		if c.T.Bias(1, 5, "part3-queued") {
			c.Knob("part", 3)
			runC10Queued(c)
			return
		}
		if c.T.Bias(1, 3, "part3") {
			c.Knob("part", 3)
			runC10OneShot(c)
			return
		}
		c.Knob("part", 2)
		runC10API(c)
		return
	}
	c.Knob("part", 1)
	runC10Loop(c)
}

type c10Ev struct {
	seq  int64
	kind string // submit, start, end, return, closecall, closereturn, onclose-start, onclose-end
	id   string
	err  bool
}

func runC10Loop(c *core.Ctx) {
	s := sched.Install(c, nil)
	var seq atomic.Int64
	var mu sync.Mutex
	var hist []c10Ev
	rec := func(kind, id string, err bool) {
		mu.Lock()
		hist = append(hist, c10Ev{seq: seq.Add(1), kind: kind, id: id, err: err})
		mu.Unlock()
	}
	loop := ice.VerifNewLoop(func() {
		rec("onclose-start", "", false)
		s.Yield("harness.onClose")
		rec("onclose-end", "", false)
	})
	closedByCleanup := false
	c.Defer(func() {
		if !closedByCleanup {
			closedByCleanup = true
			s.Drain()
			loop.Close()
		}
	})

	nSub := c.T.Range(2, 5, "nsub")
	nCancel := c.T.Range(0, 2, "ncancel")
	nClose := c.T.Range(1, 3, "nclose")
	c.Knob("submitters", nSub)
	c.Knob("cancellers", nCancel)
	c.Knob("closers", nClose)
	var wg sync.WaitGroup
	var pendingTasks atomic.Int32
	ctxs := make([]context.Context, nSub)
	cancels := make([]context.CancelFunc, nSub)
	for i := range ctxs {
		ctxs[i], cancels[i] = context.WithCancel(context.Background())
	}
	submit := func(id string, ctx context.Context, reenter bool) {
		pendingTasks.Add(1)
		defer pendingTasks.Add(-1)
		rec("submit", id, false)
		err := loop.Run(ctx, func(context.Context) {
			rec("start", id, false)
			s.Yield("harness.taskBody")
			if reenter {
				// a re-entrant submission from ANOTHER goroutine while this task is running
				wg.Add(1)
				go func() {
					defer wg.Done()
					rid := id + "/re"
					rec("submit", rid, false)
					e := loop.Run(context.Background(), func(context.Context) {
						rec("start", rid, false)
						rec("end", rid, false)
					})
					rec("return", rid, e != nil)
				}()
			}
			rec("end", id, false)
		})
		rec("return", id, err != nil)
	}
	for i := 0; i < nSub; i++ {
		i := i
		k := c.T.Range(1, 3, "ncalls")
		re := c.T.Bias(1, 4, "reenter")
		wg.Add(1)
		go func() {
			defer wg.Done()
			for j := 0; j < k; j++ {
				s.Yield("harness.submitter")
				submit(fmt.Sprintf("s%d.%d", i, j), ctxs[i], re && j == 0)
			}
		}()
	}
	for i := 0; i < nCancel; i++ {
		target := c.T.Choose(nSub, "canceltarget")
		wg.Add(1)
		go func() {
			defer wg.Done()
			s.Yield("harness.canceller")
			cancels[target]()
			c.Fault("context-cancel")
		}()
	}
	for i := 0; i < nClose; i++ {
		i := i
		withPre := c.T.Bias(1, 2, "prestop")
		wg.Add(1)
		go func() {
			defer wg.Done()
			s.Yield("harness.closer")
			id := fmt.Sprintf("c%d", i)
			rec("closecall", id, false)
			if !withPre {
				rec("closecall-plain", id, false)
			}
			if withPre {
				loop.CloseWithPreStop(func() { rec("prestop", id, false) })
			} else {
				loop.Close()
			}
			rec("closereturn", id, false)
		}()
	}
	done := make(chan struct{})
	go func() { wg.Wait(); close(done) }()

	steps := s.Run(5000)
	closedByCleanup = true // the closers close the loop; nothing left for the cleanup to do
	finished := false
	select {
	case <-done:
		finished = true
	default:
	}
	c.Knob("schedSteps", steps)
	mu.Lock()
	h := append([]c10Ev(nil), hist...)
	mu.Unlock()
	if !finished {
		c.Failf("C10/loop-deadlock", "after %d scheduling steps nothing is runnable but callers are still blocked (parked: %s); history: %s", steps, s.Describe(), c10Hist(h))
		// let the bubble end: close whatever is left
		go loop.Close()
		for _, cf := range cancels {
			cf()
		}
		return
	}
	c10CheckHistory(c, h)
	for site, n := range s.Parks {
		if n > 0 {
			c.Probe("site:" + site)
		}
	}
	for _, cf := range cancels {
		cf()
	}
}

func c10Hist(h []c10Ev) string {
	out := ""
	for _, e := range h {
		out += fmt.Sprintf("%s(%s", e.kind, e.id)
		if e.err {
			out += ",err"
		}
		out += ") "
	}
	return out
}

func c10CheckHistory(c *core.Ctx, h []c10Ev) {
	// the pre-stop hook: whoever closes the loop first runs its hook - once, after the loop is marked closed and
	// before any Close returns. (Which closer is first cannot be told from outside; when every closer brought a
	// hook, exactly one hook ran.)
	nCloseCalls, nPlain, nPre := 0, 0, 0
	var preSeq, firstRet int64
	for _, e := range h {
		switch e.kind {
		case "closecall":
			nCloseCalls++
		case "closecall-plain":
			nPlain++
		case "prestop":
			nPre++
			preSeq = e.seq
		case "closereturn":
			if firstRet == 0 {
				firstRet = e.seq
			}
		}
	}
	if nPre > 1 {
		c.Failf("C10/prestop-ran-more-than-once", "%d pre-stop hooks ran; history: %s", nPre, c10Hist(h))
		return
	}
	if nCloseCalls > 0 && nPlain == 0 && firstRet != 0 && (nPre != 1 || preSeq > firstRet) {
		c.Failf("C10/prestop-not-run", "every closer passed a pre-stop hook, %d of them ran before the first Close returned (the hook is what aborts a task blocked in a socket write); history: %s", nPre, c10Hist(h))
		return
	}
	active := ""
	started := map[string]int{}
	ended := map[string]int{}
	startSeq := map[string]int64{}
	endSeq := map[string]int64{}
	var firstCloseReturn, oncloseStart, oncloseEnd, lastTaskEnd int64
	oncloseRuns := 0
	for _, e := range h {
		switch e.kind {
		case "start":
			if active != "" {
				c.Failf("C10/tasks-overlap", "task %s started while %s was running; history: %s", e.id, active, c10Hist(h))
				return
			}
			active = e.id
			started[e.id]++
			startSeq[e.id] = e.seq
			if firstCloseReturn != 0 {
				c.Failf("C10/task-started-after-close-returned", "task %s started after a Close call had returned; history: %s", e.id, c10Hist(h))
				return
			}
			if oncloseStart != 0 {
				c.Failf("C10/task-started-after-onclose", "task %s started after the close callback ran; history: %s", e.id, c10Hist(h))
				return
			}
		case "end":
			active = ""
			ended[e.id]++
			endSeq[e.id] = e.seq
			lastTaskEnd = e.seq
		case "onclose-start":
			if active != "" {
				c.Failf("C10/onclose-overlaps-task", "close callback ran while task %s was running; history: %s", active, c10Hist(h))
				return
			}
			oncloseRuns++
			oncloseStart = e.seq
		case "onclose-end":
			oncloseEnd = e.seq
		case "closereturn":
			if firstCloseReturn == 0 {
				firstCloseReturn = e.seq
			}
			if oncloseEnd == 0 {
				c.Failf("C10/close-returned-before-onclose", "Close %s returned before the close callback finished; history: %s", e.id, c10Hist(h))
				return
			}
		case "return":
			if e.err {
				if started[e.id] > 0 {
					c.Failf("C10/error-but-task-ran", "Run(%s) returned an error although its task started; history: %s", e.id, c10Hist(h))
					return
				}
			} else {
				if started[e.id] != 1 || ended[e.id] != 1 {
					c.Failf("C10/success-but-task-not-run-once", "Run(%s) returned nil, task started %d and finished %d times before the return; history: %s",
						e.id, started[e.id], ended[e.id], c10Hist(h))
					return
				}
			}
		}
	}
	// a submission that returned an error must never run, even later
	for _, e := range h {
		if e.kind == "return" && e.err && started[e.id] > 0 {
			c.Failf("C10/error-but-task-ran-later", "Run(%s) returned an error but its task ran; history: %s", e.id, c10Hist(h))
			return
		}
	}
	if oncloseRuns != 1 {
		c.Failf("C10/onclose-count", "close callback ran %d times; history: %s", oncloseRuns, c10Hist(h))
		return
	}
	if lastTaskEnd > oncloseStart {
		c.Failf("C10/task-after-onclose", "a task finished after the close callback started; history: %s", c10Hist(h))
	}
}

// --- part 2 -----------------------------------------------------------------------------------------

type c10Call struct {
	name     string
	lockFree bool // documented lock-free accessor: may return while the loop is busy
	f        func() error
	done     atomic.Bool
	err      error
}

// runC10API: with the agent's loop goroutine parked inside a task (a check burst blocked in a simulated
// socket write), every public method is invoked from a fresh goroutine. Methods that depend on agent
// state must wait for the loop (not return, not reach the socket layer, emit nothing) and complete once
// the loop is released.
func runC10API(c *core.Ctx) {
	ci := 100 * time.Millisecond
	opts := func() []ice.AgentOption {
		return []ice.AgentOption{ice.WithCheckInterval(ci), ice.WithKeepaliveInterval(300 * time.Millisecond),
			ice.WithCandidateTypes([]ice.CandidateType{ice.CandidateTypeHost, ice.CandidateTypeServerReflexive}),
			ice.WithSrflxAcceptanceMinWait(0), ice.WithMaxBindingRequests(100),
			ice.WithRenomination(ice.DefaultNominationValueGenerator())}
	}
	d, err := rig.NewDuo(c, rig.DuoCfg{AddrsA: []string{"10.0.1.10"}, AddrsB: []string{"10.0.2.10"}, AliasA: "198.51.100.1", OptsA: opts(), OptsB: opts()})
	if err != nil {
		c.Failf("harness/setup", "%v", err)
		return
	}
	A, B := d.A, d.B
	for _, ag := range []*rig.AgentH{A, B} {
		if err := d.Gather(ag); err != nil {
			c.Failf("harness/gather", "%v", err)
			return
		}
	}
	for _, cand := range A.LocalCands() {
		_ = d.Signal(A, B, cand)
	}
	for _, cand := range B.LocalCands() {
		_ = d.Signal(B, A, cand)
	}
	d.S.Settle()
	A.Conn, _ = A.A.StartDial(B.Ufrag, B.Pwd)
	B.Conn, _ = B.A.StartAccept(A.Ufrag, A.Pwd)
	phase := c.T.Choose(2, "phase") // 0: while checking, 1: after connecting
	if phase == 1 {
		for i := 0; i < 200 && !(A.LastState() == ice.ConnectionStateConnected && B.LastState() == ice.ConnectionStateConnected); i++ {
			d.S.StepFair(ci / 2)
		}
	} else {
		d.S.Settle()
	}
	lc, rc := c20Cands(A, 0) // fetched before the loop is parked (the getters go through the loop)
	aLocals, bLocals := A.LocalCands(), B.LocalCands()
	// park the loop: block A's sockets and let the next tick run into them
	var socks []*simnet.Sock
	for _, s := range d.W.Sockets() {
		if s.Host() == d.HA && s.Tag != "service" && !s.Closed() {
			socks = append(socks, s)
		}
	}
	for _, s := range socks {
		s.SetBlockWrites(true)
	}
	blockedNow := func() int {
		n := 0
		for _, s := range socks {
			n += s.Blocked()
		}
		return n
	}
	for i := 0; i < 20 && blockedNow() == 0; i++ {
		time.Sleep(ci)
		synctest.Wait()
	}
	if blockedNow() == 0 {
		c.Probe("loop-not-parked")
		for _, s := range socks {
			s.SetBlockWrites(false)
		}
		return
	}
	c.Fault("loop-parked-in-write")
	entered := func() int {
		n := 0
		d.W.Lock()
		for _, s := range socks {
			n += s.WritersEntered
		}
		d.W.Unlock()
		return n
	}
	enteredBefore := entered()
	inflight := len(d.W.InFlight())

	remote, _ := ice.NewCandidateHost(&ice.CandidateHostConfig{Network: "udp", Address: "10.0.2.77", Port: 7777, Component: 1})
	calls := []*c10Call{
		{name: "GetLocalCandidates", f: func() error { _, err := A.A.GetLocalCandidates(); return err }},
		{name: "GetRemoteCandidates", f: func() error { _, err := A.A.GetRemoteCandidates(); return err }},
		{name: "GetGatheringState", f: func() error { _, err := A.A.GetGatheringState(); return err }},
		{name: "GetLocalUserCredentials", f: func() error { _, _, err := A.A.GetLocalUserCredentials(); return err }},
		{name: "GetRemoteUserCredentials", f: func() error { _, _, err := A.A.GetRemoteUserCredentials(); return err }},
		{name: "GetCandidatePairsStats", f: func() error { _ = A.A.GetCandidatePairsStats(); return nil }},
		{name: "GetSelectedCandidatePairStats", f: func() error { _, _ = A.A.GetSelectedCandidatePairStats(); return nil }},
		{name: "GetLocalCandidatesStats", f: func() error { _ = A.A.GetLocalCandidatesStats(); return nil }},
		{name: "Conn.GetCandidatePairsInfo", f: func() error { _ = A.Conn.GetCandidatePairsInfo(); return nil }},
		{name: "Conn.WriteToPair", f: func() error { _, err := A.Conn.WriteToPair(1, []byte("x")); _ = err; return nil }},
		{name: "SetRemoteCredentials", f: func() error { return A.A.SetRemoteCredentials(B.Ufrag, B.Pwd) }},
		{name: "GatherCandidates", f: func() error { _ = A.A.GatherCandidates(); return nil }},
		{name: "RenominateCandidate", f: func() error { _ = A.A.RenominateCandidate(lc, rc); return nil }},
		{name: "UpdateOptions", f: func() error { return A.A.UpdateOptions() }},
		{name: "GetSelectedCandidatePair", lockFree: true, f: func() error { _, err := A.A.GetSelectedCandidatePair(); return err }},
		{name: "Conn.LocalAddr", lockFree: true, f: func() error { _ = A.Conn.LocalAddr(); _ = A.Conn.RemoteAddr(); return nil }},
		{name: "Conn.BytesSent", lockFree: true, f: func() error { _ = A.Conn.BytesSent(); _ = A.Conn.BytesReceived(); return nil }},
		{name: "OnCandidate", lockFree: true, f: func() error { return nil }},
		{name: "AddRemoteCandidate", lockFree: true, f: func() error { return A.A.AddRemoteCandidate(remote) }}, // documented asynchronous
		// Restart tears the candidates down on the loop and waits for their receive loops; a receive loop that
		// is itself waiting for the loop (it just read application data, see below) must give way
		{name: "Restart", f: func() error { return A.A.Restart("", "") }},
	}
	which := c.T.Choose(len(calls), "whichcall") // one method per run, so that an effect is attributable
	active := []*c10Call{calls[which]}
	c.Knob("method", calls[which].name)
	if calls[which].name == "Restart" {
		// application data (the first datagram from that remote on this socket) arrives while the loop is
		// parked: the candidate's receive loop queues up behind the loop, in front of or behind the Restart
		dataFirst := c.T.Bias(1, 2, "data-before-restart")
		inject := func() {
			for _, lcand := range aLocals {
				for _, rcand := range bLocals {
					dg := d.W.Inject(rig.CandAP(rcand), rig.CandAP(lcand), []byte("\x40first-application-datagram"), "app-data")
					d.W.Deliver(dg)
				}
			}
			synctest.Wait()
			c.Fault("application-data-queued-behind-parked-loop")
		}
		if dataFirst {
			inject()
		}
		cl := active[0]
		go func() { cl.err = cl.f(); cl.done.Store(true) }()
		synctest.Wait()
		if !dataFirst {
			inject()
		}
		inflight = len(d.W.InFlight())
	} else {
		for _, cl := range active {
			cl := cl
			go func() { cl.err = cl.f(); cl.done.Store(true) }()
		}
	}
	time.Sleep(time.Millisecond)
	synctest.Wait()
	for _, cl := range active {
		if cl.lockFree {
			continue
		}
		if cl.done.Load() {
			c.Failf("C10/api-bypasses-loop/"+cl.name, "%s returned while the agent's loop goroutine was parked in the middle of a task", cl.name)
		}
	}
	if e := entered(); e != enteredBefore && !c.Failed() {
		names := ""
		for _, cl := range active {
			names += cl.name + " "
		}
		c.Failf("C10/api-reaches-socket-while-loop-busy/"+active[0].name, "%d caller(s) entered the socket layer while the loop goroutine was parked in a task (calls in flight: %s)", e-enteredBefore, names)
	}
	if n := len(d.W.InFlight()); n != inflight && !c.Failed() {
		c.Failf("C10/api-emits-while-loop-busy/"+active[0].name, "%d datagram(s) were emitted while the loop goroutine was parked in a task", n-inflight)
	}
	// release the loop: everything completes
	for _, s := range socks {
		s.SetBlockWrites(false)
	}
	for i := 0; i < 50; i++ {
		synctest.Wait()
		all := true
		for _, cl := range active {
			if !cl.done.Load() {
				all = false
			}
		}
		if all {
			break
		}
		time.Sleep(ci)
	}
	for _, cl := range active {
		if !cl.done.Load() && !c.Failed() {
			c.Failf("C10/api-never-completes", "%s did not complete after the loop was released", cl.name)
		}
	}
	c.Probe(fmt.Sprintf("api-phase-%d", phase))
}

// runC10OneShot: one-shot operations issued concurrently while the loop is busy must behave as if they had
// run one after the other: of two overlapping Start calls (Dial/Accept in any combination) exactly one
// succeeds and the others report that the agent was already started. (Overlapping GatherCandidates are NOT
// judged this way: the gathering state is advanced by the cycle's own goroutine, a second call that arrives
// before that cancels the first cycle and starts another, which the code handles deliberately - demanding
// ErrMultipleGatherAttempted there was a false alarm of an earlier version of this check.)
func runC10OneShot(c *core.Ctx) {
	w := simnet.NewWorld()
	h := w.SimpleHost("A", "10.0.1.10")
	ice.VerifSeedGlobalRand(1)
	ag, err := rig.NewAgent("A", h, time.Now(), ice.WithNetworkTypes([]ice.NetworkType{ice.NetworkTypeUDP4}),
		ice.WithCandidateTypes([]ice.CandidateType{ice.CandidateTypeHost}))
	if err != nil {
		c.Failf("harness/setup", "%v", err)
		return
	}
	c.Defer(func() { _ = ag.A.Close() })
	// keep the loop busy with a task that blocks until released (an option applied through UpdateOptions runs
	// on the loop)
	release := make(chan struct{})
	busy := make(chan struct{})
	go func() {
		_ = ag.A.UpdateOptions(func(*ice.Agent) error {
			close(busy)
			<-release
			return nil
		})
	}()
	<-busy
	if c.T.Bias(1, 4, "getter-aliasing") {
		close(release)
		synctest.Wait()
		c10GetterAliasing(c, ag)
		return
	}
	if c.T.Bias(1, 3, "gather-then-restart") {
		// GatherCandidates, then Restart, queued in this order behind the busy loop: the outcome must be that of
		// the two whole operations one after the other - the cycle the first one started is cancelled by the
		// second, the agent is back in gathering state New with no candidates, and may gather again.
		var gErr, rErr error
		var gDone, rDone atomic.Bool
		go func() { gErr = ag.A.GatherCandidates(); gDone.Store(true) }()
		synctest.Wait()
		go func() { rErr = ag.A.Restart("", ""); rDone.Store(true) }()
		synctest.Wait()
		c.Fault("gather-and-restart-queued-behind-busy-loop")
		close(release)
		for i := 0; i < 50 && !(gDone.Load() && rDone.Load()); i++ {
			synctest.Wait()
			time.Sleep(10 * time.Millisecond)
		}
		if !gDone.Load() || !rDone.Load() {
			c.Failf("C10/one-shot-call-never-returns", "GatherCandidates/Restart did not return after the loop was released")
			return
		}
		if gErr != nil || rErr != nil {
			c.Failf("C10/queued-call-fails", "GatherCandidates=%v Restart=%v", gErr, rErr)
			return
		}
		time.Sleep(3 * time.Second) // whatever the cancelled cycle still does has happened by now
		synctest.Wait()
		st, _ := ag.A.GetGatheringState()
		lc, _ := ag.A.GetLocalCandidates()
		if st != ice.GatheringStateNew || len(lc) != 0 {
			c.Failf("C10/restart-not-atomic-with-queued-gather", "GatherCandidates then Restart (queued in this order): gathering state is %s with %d local candidate(s); expected New and none - the cycle started by the first call survived the Restart that followed it", st, len(lc))
			return
		}
		if err := ag.A.GatherCandidates(); err != nil {
			c.Failf("C10/restart-not-atomic-with-queued-gather", "GatherCandidates after GatherCandidates+Restart returned %v", err)
			return
		}
		c.Probe("one-shot-gather-then-restart")
		return
	}
	if c.T.Bias(1, 3, "gather-then-gather") {
		// two GatherCandidates calls queued behind the busy loop: whether the second is refused or supersedes the
		// first, the outcome is that of whole operations - ONE cycle's worth of candidates (one host candidate
		// for the one address, one end-of-candidates marker), never the sum of two cycles running side by side
		var e1, e2 error
		var d1, d2 atomic.Bool
		go func() { e1 = ag.A.GatherCandidates(); d1.Store(true) }()
		synctest.Wait()
		go func() { e2 = ag.A.GatherCandidates(); d2.Store(true) }()
		synctest.Wait()
		c.Fault("two-gathers-queued-behind-busy-loop")
		close(release)
		for i := 0; i < 50 && !(d1.Load() && d2.Load()); i++ {
			synctest.Wait()
			time.Sleep(10 * time.Millisecond)
		}
		if !d1.Load() || !d2.Load() {
			c.Failf("C10/one-shot-call-never-returns", "GatherCandidates did not return after the loop was released")
			return
		}
		if e1 != nil {
			c.Failf("C10/queued-call-fails", "the first of two queued GatherCandidates calls returned %v", e1)
			return
		}
		time.Sleep(3 * time.Second)
		synctest.Wait()
		lc, _ := ag.A.GetLocalCandidates()
		nils, hosts := 0, 0
		for _, cand := range ag.CandSeq() {
			if cand == nil {
				nils++
			} else {
				hosts++
			}
		}
		if len(lc) != 1 || nils != 1 {
			c.Failf("C10/overlapping-gathers-not-serialised", "two GatherCandidates calls queued back to back (second returned %v): the agent lists %d local candidates (%v) for its one address, %d candidate callbacks and %d end-of-candidates markers were delivered - two cycles ran side by side",
				e2, len(lc), candList(lc), hosts, nils)
			return
		}
		c.Probe("one-shot-gather-then-gather")
		return
	}
	kind := 0
	n := c.T.Range(2, 3, "ncalls")
	type res struct {
		name string
		err  error
		done atomic.Bool
	}
	var calls []*res
	for i := 0; i < n; i++ {
		r := &res{}
		calls = append(calls, r)
		dial := c.T.Bias(1, 2, "dial")
		go func() {
			switch kind {
			case 0:
				if dial {
					r.name = "StartDial"
					_, r.err = ag.A.StartDial("peerufrag", "peerpwdxxxxxxxxxxxxxxxxxxxxxxxx")
				} else {
					r.name = "StartAccept"
					_, r.err = ag.A.StartAccept("peerufrag", "peerpwdxxxxxxxxxxxxxxxxxxxxxxxx")
				}
			}
			r.done.Store(true)
		}()
	}
	// The callers serialise on a mutex of the agent while one of them waits for the loop; a goroutine
	// blocked on a mutex is not durably blocked, so no synctest.Wait/Sleep until all of them returned:
	// plain yields let them run up to their blocking points (GOMAXPROCS=1: deterministic).
	for i := 0; i < 20; i++ {
		runtime.Gosched()
	}
	c.Fault("overlapping-one-shot-calls")
	close(release)
	for i := 0; i < 10000; i++ {
		all := true
		for _, r := range calls {
			if !r.done.Load() {
				all = false
			}
		}
		if all {
			break
		}
		runtime.Gosched()
	}
	ok, names := 0, ""
	for _, r := range calls {
		if !r.done.Load() {
			c.Failf("C10/one-shot-call-never-returns", "%s did not return after the loop was released", r.name)
			return
		}
		names += fmt.Sprintf("%s=%v ", r.name, r.err)
		if r.err == nil {
			ok++
		}
	}
	if ok != 1 {
		c.Failf("C10/overlapping-starts-not-serialised", "%d of %d overlapping calls succeeded (exactly one must, the others must see its effect): %s", ok, n, names)
	}
	c.Probe(fmt.Sprintf("one-shot-kind-%d", kind))
}

// c10GetterAliasing: what a getter returned is a value of its own. Later operations of the agent must not
// rewrite it, and what the caller does with it (append, overwrite) must not reach the agent's state - both
// would be accesses to loop-owned memory from a foreign goroutine, and the agent would "observe" a state no
// operation produced.
func c10GetterAliasing(c *core.Ctx, ag *rig.AgentH) {
	mk := func(ip string, port int) ice.Candidate {
		cand, err := ice.NewCandidateHost(&ice.CandidateHostConfig{Network: "udp", Address: ip, Port: port, Component: 1})
		if err != nil {
			c.Failf("harness/candidate", "%v", err)
		}
		return cand
	}
	n0 := c.T.Range(1, 4, "nremote")
	for i := 0; i < n0 && !c.Failed(); i++ {
		_ = ag.A.AddRemoteCandidate(mk("10.0.9.1", 6000+i))
	}
	synctest.Wait()
	got, err := ag.A.GetRemoteCandidates()
	if err != nil || len(got) != n0 {
		c.Failf("harness/getter", "GetRemoteCandidates: %d candidates, err=%v", len(got), err)
		return
	}
	snapshot := append([]ice.Candidate(nil), got...)
	// the agent goes on: more candidates arrive
	n1 := c.T.Range(1, 3, "nmore")
	var later []ice.Candidate
	for i := 0; i < n1; i++ {
		cand := mk("10.0.9.2", 7000+i)
		later = append(later, cand)
		_ = ag.A.AddRemoteCandidate(cand)
	}
	synctest.Wait()
	// the caller uses its slice: appends its own element (full capacity expression is NOT used on purpose:
	// a slice handed out by an API is the caller's to append to)
	foreign := mk("192.0.2.200", 9999)
	mine := append(got, foreign)
	_ = mine
	for i := range snapshot {
		if got[i] != snapshot[i] {
			c.Failf("C10/getter-result-rewritten", "element %d of the slice GetRemoteCandidates returned earlier changed from %s to %s after later AddRemoteCandidate calls", i, snapshot[i], got[i])
			return
		}
	}
	now, err := ag.A.GetRemoteCandidates()
	if err != nil {
		return
	}
	have := map[string]bool{}
	for _, r := range now {
		have[rig.CandAddr(r)] = true
		if r == foreign {
			c.Failf("C10/caller-append-reached-agent-state", "a candidate the caller appended to the slice returned by GetRemoteCandidates is now part of the agent's remote candidates: %s", r)
			return
		}
	}
	for _, l := range later {
		if !have[rig.CandAddr(l)] {
			c.Failf("C10/caller-append-reached-agent-state", "remote candidate %s, accepted by AddRemoteCandidate, is gone after the caller appended to an earlier getter result (%d listed)", l, len(now))
			return
		}
	}
	// same for local candidates and stats: the results are fresh values
	l1, _ := ag.A.GetLocalCandidates()
	l2, _ := ag.A.GetLocalCandidates()
	if len(l1) > 0 && len(l2) > 0 && &l1[0] == &l2[0] {
		c.Failf("C10/getter-returns-shared-slice", "two GetLocalCandidates calls returned the same backing array")
		return
	}
	c.Probe("getter-aliasing-checked")
}
