package checks

import (
	"fmt"
	"testing/synctest"
	"time"

	"github.com/pion/ice/v4"

	"verif/sim/core"
	"verif/sim/rig"
)

// runC04SlowHandler: "the states delivered to the connection-state callback are exactly the agent's
// transitions, in order" with a handler that is slow. Agent A's handler blocks inside one of its callbacks
// (tape: which) while the session goes on - connect, silence until Disconnected/Failed, Restart, Close, as the
// tape says - so that transitions queue up behind it; then it is released. What A's handler finally saw must
// be the very sequence of transitions the agent made (read at the enqueue site through the Note hook), none
// missing, none repeated, and a legal path.
func runC04SlowHandler(c *core.Ctx) {
	t := c.T
	ci := 50 * time.Millisecond
	D := []time.Duration{300 * time.Millisecond, time.Second}[t.Choose(2, "D")]
	F := []time.Duration{400 * time.Millisecond, 0}[t.Choose(2, "F")]
	opts := func() []ice.AgentOption {
		return []ice.AgentOption{ice.WithCheckInterval(ci), ice.WithKeepaliveInterval(100 * time.Millisecond),
			ice.WithDisconnectedTimeout(D), ice.WithFailedTimeout(F),
			ice.WithCandidateTypes([]ice.CandidateType{ice.CandidateTypeHost}), ice.WithMaxBindingRequests(1000)}
	}
	c.Knob("scenario", "slow-state-handler")
	d, err := rig.NewDuo(c, rig.DuoCfg{AddrsA: []string{"10.0.1.10"}, AddrsB: []string{"10.0.2.10"}, OptsA: opts(), OptsB: opts()})
	if err != nil {
		c.Failf("harness/setup", "%v", err)
		return
	}
	notes := rig.InstallNotes(c)
	A, B := d.A, d.B
	blockAt := t.Choose(3, "block-at") // the n-th callback of A blocks
	gate := make(chan struct{})
	released := false
	release := func() {
		if !released {
			released = true
			close(gate)
		}
	}
	c.Defer(release)
	ncb := 0
	A.OnState = func(ice.ConnectionState) {
		n := ncb
		ncb++
		if n == blockAt {
			c.Fault("state-handler-blocks")
			<-gate
		}
	}
	for _, ag := range []*rig.AgentH{A, B} {
		if err := d.Gather(ag); err != nil {
			c.Failf("harness/gather", "%v", err)
			return
		}
	}
	for _, cand := range A.LocalCands() {
		_ = d.Signal(A, B, cand)
	}
	for _, cand := range B.LocalCands() {
		_ = d.Signal(B, A, cand)
	}
	A.Conn, _ = A.A.StartDial(B.Ufrag, B.Pwd)
	B.Conn, _ = B.A.StartAccept(A.Ufrag, A.Pwd)
	// the session: B's own callbacks are prompt, so B's view tells how far the session got
	for i := 0; i < 200 && B.LastState() != ice.ConnectionStateConnected; i++ {
		d.S.StepFair(ci / 2)
	}
	if t.Bias(1, 2, "silence") {
		// total loss until A's timers have run (Disconnected, then Failed if enabled)
		for el := time.Duration(0); el < D+F+time.Second; el += ci {
			for _, dg := range d.W.InFlight() {
				d.W.Drop(dg)
			}
			d.S.Advance(ci)
		}
		c.Fault("total-silence")
	}
	if t.Bias(1, 3, "restart") {
		uf, pw := rig.Creds("A", 1)
		if err := A.A.Restart(uf, pw); err == nil {
			A.Ufrag, A.Pwd = uf, pw
			c.Fault("restart")
		}
		d.S.Settle()
	}
	graceful := t.Bias(1, 2, "graceful")
	closed := make(chan struct{})
	go func() {
		if graceful {
			_ = A.A.GracefulClose()
		} else {
			_ = A.A.Close()
		}
		close(closed)
	}()
	c.Fault("close-with-handler-blocked")
	synctest.Wait()
	release()
	for i := 0; i < 100; i++ {
		synctest.Wait()
		select {
		case <-closed:
			i = 100
		default:
			time.Sleep(10 * time.Millisecond)
		}
	}
	time.Sleep(200 * time.Millisecond)
	synctest.Wait()

	// transitions made, per notifier, as recorded at the enqueue site
	made := map[any][]string{}
	var order []any
	for _, ev := range notes.Take() {
		e, ok := ev.V.(ice.VerifEvent)
		if !ok || ev.Site != "enqueue.state" {
			continue
		}
		if _, seen := made[e.Src]; !seen {
			order = append(order, e.Src)
		}
		made[e.Src] = append(made[e.Src], fmt.Sprint(e.V))
	}
	var got []string
	for _, ev := range A.StateSeq() {
		got = append(got, ev.State.String())
	}
	match := false
	for _, src := range order {
		if equalStrings(made[src], got) {
			match = true
		}
	}
	if !match {
		var all [][]string
		for _, src := range order {
			all = append(all, made[src])
		}
		c.Failf("C04/delivered-states-differ-from-transitions", "the state handler of A (blocked in its callback #%d while the session went on, then released) was called with %v; the transitions made, per agent, were %v", blockAt, got, all)
		return
	}
	if ov := A.Overlaps(); len(ov) > 0 {
		// "delivered in order": the handler is told about transition N+1 only after it has returned from N
		c.Failf("C04/state-handler-entered-while-running", "the state handler of A was entered again while an earlier call had not returned (it was blocked in callback #%d); states delivered: %v", blockAt, got)
		return
	}
	for i := 1; i < len(got); i++ {
		if got[i] == got[i-1] {
			c.Failf("C04/repeated-state", "consecutive repeat in the delivered states %v", got)
			return
		}
	}
	if n := len(got); n == 0 || got[n-1] != ice.ConnectionStateClosed.String() {
		c.Failf("C04/closed-not-delivered", "Close returned and the handler was released, delivered states: %v", got)
		return
	}
	c.Probe(fmt.Sprintf("slow-handler-states-%d", len(got)))
	c.MarkNontrivial()
}
