package checks

import (
	"net"
	"net/netip"
	"testing/synctest"
	"time"

	"github.com/pion/ice/v4"
	"github.com/pion/stun/v3"

	"verif/sim/core"
	"verif/sim/rig"
	"verif/sim/simnet"
	"verif/sim/simstream"
)

// runC02CrossTransport: "a correctly signed success response changes pair state only if its transaction ID
// belongs to a still-outstanding request that was sent, OVER THE SAME TRANSPORT PROTOCOL, to exactly the
// address the response came from". The agent has a UDP host candidate and a passive ICE-TCP candidate (real
// TCPMuxDefault); the remote is known under one ip:port on UDP and on TCP. A check sent over UDP is
// outstanding; the peer answers it, correctly signed - but over its TCP connection. Nothing may change.
func runC02CrossTransport(c *core.Ctx) {
	t := c.T
	c.Knob("scenario", "response-over-the-other-transport")
	w := simnet.NewWorld()
	hb := w.SimpleHost("B", "10.0.2.10")
	lst := simstream.Listen(&net.TCPAddr{IP: net.ParseIP("10.0.2.10"), Port: 7100})
	mux := ice.NewTCPMuxDefault(ice.TCPMuxParams{Listener: lst, Logger: rig.Quiet().NewLogger("tcpmux"), ReadBufferSize: 16})
	c.Defer(func() { _ = mux.Close() })
	ice.VerifSeedGlobalRand(1)
	controlling := t.Bias(1, 2, "controlling")
	B, err := rig.NewAgent("B", hb, time.Now(),
		ice.WithNetworkTypes([]ice.NetworkType{ice.NetworkTypeUDP4, ice.NetworkTypeTCP4}),
		ice.WithCandidateTypes([]ice.CandidateType{ice.CandidateTypeHost}),
		ice.WithTCPMux(mux), ice.WithDisableActiveTCP(),
		ice.WithCheckInterval(50*time.Millisecond), ice.WithKeepaliveInterval(0),
		ice.WithDisconnectedTimeout(0), ice.WithFailedTimeout(0), ice.WithMaxBindingRequests(1000))
	if err != nil {
		c.Failf("harness/setup", "%v", err)
		return
	}
	c.Defer(func() { _ = B.A.Close() })
	if err := B.A.GatherCandidates(); err != nil {
		c.Failf("harness/gather", "%v", err)
		return
	}
	for i := 0; i < 50; i++ {
		synctest.Wait()
		if cs := B.CandSeq(); len(cs) > 0 && cs[len(cs)-1] == nil {
			break
		}
		time.Sleep(10 * time.Millisecond)
	}
	peerU, peerP := "peeru", "peerpwdxxxxxxxxxxxxxxxxxxxxxxxx"
	peerAP := netip.MustParseAddrPort("10.0.3.10:6000")
	// the remote under one ip:port on both transports
	ru, _ := ice.NewCandidateHost(&ice.CandidateHostConfig{Network: "udp", Address: "10.0.3.10", Port: 6000, Component: 1})
	rt, _ := ice.NewCandidateHost(&ice.CandidateHostConfig{Network: "tcp", Address: "10.0.3.10", Port: 6000, Component: 1, TCPType: ice.TCPTypeActive})
	if ru == nil || rt == nil {
		c.Failf("harness/candidates", "could not build the remote candidates")
		return
	}
	if controlling {
		B.Conn, err = B.A.StartDial(peerU, peerP)
	} else {
		B.Conn, err = B.A.StartAccept(peerU, peerP)
	}
	if err != nil {
		c.Failf("harness/start", "%v", err)
		return
	}
	_ = B.A.AddRemoteCandidate(ru)
	synctest.Wait()
	// the scripted peer attaches its TCP connection (from the very ip:port) with an ordinary check of its own
	cl, err := lst.Dial(&net.TCPAddr{IP: net.ParseIP("10.0.3.10"), Port: 6000}, simstream.DialOpts{})
	if err != nil {
		c.Failf("harness/dial", "%v", err)
		return
	}
	c.Defer(func() { _ = cl.Close() })
	go func() {
		buf := make([]byte, 4096)
		for {
			if _, err := cl.Read(buf); err != nil {
				return
			}
		}
	}()
	tb := uint64(4242)
	req := rig.MsgSpec{Method: stun.MethodBinding, Class: stun.ClassRequest, Seq: 1, Username: rig.Str(B.Ufrag + ":" + peerU),
		Key: B.Pwd, Priority: rig.U32(110<<24 + 65535<<8 + 255)}
	if controlling {
		req.Controlled = &tb
	} else {
		req.Controlling = &tb
	}
	_, _ = cl.Write(tsEnc(req.Build()))
	synctest.Wait()
	// let B send UDP checks; pick an outstanding one from the wire
	var udpTx *[stun.TransactionIDSize]byte
	var udpLocal netip.AddrPort
	for i := 0; i < 20 && udpTx == nil; i++ {
		time.Sleep(50 * time.Millisecond)
		synctest.Wait()
		for _, dg := range w.InFlight() {
			m := rig.Decode(dg.Payload)
			if m.IsSTUN && m.Class == stun.ClassRequest && dg.Dst == peerAP {
				id := m.TxID
				udpTx, udpLocal = &id, dg.Src
			}
			w.Drop(dg)
		}
	}
	if udpTx == nil {
		c.Probe("no-udp-check-outstanding")
		return
	}
	pre := rig.TakeSnap(B)
	resp := rig.MsgSpec{Method: stun.MethodBinding, Class: stun.ClassSuccessResponse, TxID: udpTx, XorAddr: &udpLocal, Key: peerP}
	_, _ = cl.Write(tsEnc(resp.Build()))
	synctest.Wait()
	c.Fault("udp-check-answered-over-tcp")
	post := rig.TakeSnap(B)
	for _, p := range post.Pairs {
		var before *rig.PairSnap
		for i := range pre.Pairs {
			if pre.Pairs[i].Key() == p.Key() {
				before = &pre.Pairs[i]
			}
		}
		if before != nil && before.State != p.State && p.State == ice.CandidatePairStateSucceeded {
			c.Failf("C02/effect/resp/other-transport", "a success response to a check sent over UDP to %s, delivered over the TCP connection from the same ip:port, moved pair %s from %s to %s", peerAP, p.Key(), before.State, p.State)
			return
		}
	}
	if pre.Selected != post.Selected || pre.NStates != post.NStates {
		c.Failf("C02/effect/resp/other-transport", "a success response to a UDP check delivered over TCP changed the selection or the connection state (%q -> %q, %d -> %d state callbacks)", pre.Selected, post.Selected, pre.NStates, post.NStates)
		return
	}
	// (The transaction itself is used up by the correctly signed response although it came over the wrong
	// transport - the code looks the transaction up before it compares addresses. C02 says nothing about that
	// for authenticated messages, so it is not judged.)
	c.Probe("cross-transport-response-ignored")
	c.MarkNontrivial()
}
