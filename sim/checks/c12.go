package checks

import (
	"bytes"
	"fmt"
	"net"
	"net/netip"
	"os"
	"runtime"
	"runtime/debug"
	"strings"
	"sync"
	"sync/atomic"
	"testing/synctest"
	"time"

	"github.com/anishathalye/porcupine"
	"github.com/pion/ice/v4"
	"github.com/pion/stun/v3"

	"verif/sim/core"
	"verif/sim/rig"
	"verif/sim/sched"
	"verif/sim/simnet"
)

func init() {
	core.Register(&core.Spec{ID: "C12", Fn: runC12})
}

// C12: one real UDPMuxDefault (bare, or behind MultiUDPMuxDefault / UniversalUDPMuxDefault) on ONE simulated
// shared socket. Part (a): tape-chosen operation sequences with quiescence after every operation, compared
// observation by observation with the reference routing table of c12St. Part (b): the same operations as
// concurrent tasks released one at a time at the mux's Yield sites; the step-stamped history is checked for
// linearizability against the same model with porcupine.

// (one ufrag is a proper prefix of another: they are different ufrags all the same)
var c12Ufrags = []string{"ufa", "ufab", "ufc", "ufd"}

// canonical remote endpoints (index = model address index); 0..2 IPv4, 3..4 IPv6
var c12Remotes = []netip.AddrPort{
	netip.MustParseAddrPort("192.0.2.1:1000"),
	netip.MustParseAddrPort("192.0.2.2:1000"),
	netip.MustParseAddrPort("192.0.2.1:2000"),
	netip.MustParseAddrPort("[2001:db8::1]:1000"),
	netip.MustParseAddrPort("[2001:db8::2]:1000"),
}

type c12Rec struct {
	data      []byte
	src       netip.AddrPort
	err       error
	call, ret int64
}

type c12Handle struct {
	idx    int
	conn   net.PacketConn
	ap     ice.AddrPortReaderWriter
	closed bool // closed by the harness
	recs   []c12Rec
	seen   int
	last   int // arrival index of the last payload this handle read (per-handle order)
}

type c12Pay struct {
	id    int
	bytes []byte
	src   netip.AddrPort // as injected (possibly IPv4-mapped)
	a, su int
	arr   int
	desc  string
	// sequential oracle
	exp     int // model connection+1 expected to get it (0 = dropped)
	read    bool
	readBy  int
	callAt  int64
	readRet int64
	strict  bool
	arrived bool
}

type c12World struct {
	c       *core.Ctx
	w       *simnet.World
	host    *simnet.Host
	sock    *simnet.Sock
	mux     ice.UDPMux
	inner   *ice.UDPMuxDefault
	dual    bool
	port    int
	nU      int
	mu      sync.Mutex
	seq     atomic.Int64
	handles []*c12Handle
	pays    []*c12Pay
	byBytes map[string]int
	arr     int
	st      c12St
	uniq    uint32
	closed  bool
	avoid   map[string]bool
	// emitAt: event stamp at which a written payload entered the wire (set under the world lock by OnSend)
	emitMu sync.Mutex
	emitAt map[string]int64
	// lastEmit: emission stamp of the datagram of the doWrite that just returned (0 = none left the socket)
	lastEmit int64
}

func (w *c12World) stamp() int64 { return w.seq.Add(1) }

func c12Avoid() map[string]bool {
	m := map[string]bool{}
	for _, k := range strings.Split(os.Getenv("VERIF_C12_AVOID"), ",") {
		if k = strings.TrimSpace(k); k != "" {
			m[k] = true
		}
	}
	return m
}

func newC12World(c *core.Ctx) *c12World {
	t := c.T
	w := &c12World{c: c, w: simnet.NewWorld(), byBytes: map[string]int{}, port: 5000, avoid: c12Avoid()}
	w.emitAt = map[string]int64{}
	w.w.OnSend = func(d *simnet.Datagram) {
		if bytes.HasPrefix(d.Payload, []byte("out-")) {
			w.emitMu.Lock()
			w.emitAt[string(d.Payload)] = w.stamp()
			w.emitMu.Unlock()
		}
	}
	w.host = w.w.SimpleHost("muxhost", "10.0.0.1", "fd00::1")
	w.host.AddrPortConns = t.Bias(1, 2, "addrport")
	w.dual = !t.Bias(1, 4, "specific-v4")
	kind := t.Pick([]int{3, 1, 1}, "muxkind")
	c.Knob("addrPortConns", w.host.AddrPortConns)
	c.Knob("dualStackSocket", w.dual)
	c.Knob("mux", []string{"UDPMuxDefault", "MultiUDPMuxDefault", "UniversalUDPMuxDefault"}[kind])
	laddr := &net.UDPAddr{IP: net.IPv6unspecified, Port: w.port}
	if !w.dual {
		laddr = &net.UDPAddr{IP: net.IPv4(10, 0, 0, 1).To4(), Port: w.port}
	}
	pc, err := w.host.Net().ListenUDP("udp", laddr)
	if err != nil {
		c.Failf("harness/listen", "%v", err)
		return nil
	}
	w.sock = w.w.Sockets()[0]
	logger := rig.Quiet().NewLogger("c12")
	switch kind {
	case 0:
		w.inner = ice.NewUDPMuxDefault(ice.UDPMuxParams{Logger: logger, UDPConn: pc, Net: w.host.Net()})
		w.mux = w.inner
	case 1:
		w.inner = ice.NewUDPMuxDefault(ice.UDPMuxParams{Logger: logger, UDPConn: pc, Net: w.host.Net()})
		w.mux = ice.NewMultiUDPMuxDefault(w.inner)
	default:
		u := ice.NewUniversalUDPMuxDefault(ice.UniversalUDPMuxParams{Logger: logger, UDPConn: pc, Net: w.host.Net()})
		w.inner = u.UDPMuxDefault
		w.mux = u
		if t.Bias(2, 3, "xorserver") {
			// the mux has asked one of the remote endpoints for its server-reflexive address (a peer that also
			// serves STUN on its media port, an ICE-lite server named as the STUN URL): that endpoint's later
			// answers to the connections are routed like anybody else's
			xa := t.Choose(len(c12Remotes), "xorserver-addr")
			c.Knob("xorServer", xa)
			answered := t.Bias(1, 2, "xorserver-answers")
			done := make(chan struct{})
			go func() {
				defer close(done)
				_, _ = u.GetXORMappedAddr(net.UDPAddrFromAddrPort(c12Remotes[xa]), 50*time.Millisecond)
			}()
			synctest.Wait()
			w.drainWire()
			if answered {
				refl := netip.MustParseAddrPort("198.51.100.7:39999")
				resp := rig.MsgSpec{Class: stun.ClassSuccessResponse, Method: stun.MethodBinding, Seq: 0xfffffff0, XorAddr: &refl,
					Integrity: rig.IntAbsent, Fingerprint: rig.FpAbsent}.Build()
				w.w.Deliver(w.w.Inject(c12Remotes[xa], w.dst(), resp, "c12 stun server"))
			}
			<-done
			synctest.Wait()
			c.Probe("mux-queried-a-remote-endpoint-as-stun-server")
		}
	}
	c.Defer(func() {
		// every connection must end (its auto-remove goroutine waits for that), then the mux
		for _, h := range w.handles {
			if h.conn != nil {
				_ = h.conn.Close()
			}
		}
		_ = w.mux.Close()
		synctest.Wait()
	})
	return w
}

func (w *c12World) localAddr(fam int) net.Addr {
	if fam == 1 {
		return &net.UDPAddr{IP: net.ParseIP("fd00::1"), Port: w.port}
	}
	return &net.UDPAddr{IP: net.IPv4(10, 0, 0, 1).To4(), Port: w.port}
}

func (w *c12World) dst() netip.AddrPort {
	if w.dual {
		return netip.AddrPortFrom(netip.MustParseAddr("fd00::1"), uint16(w.port))
	}
	return netip.AddrPortFrom(netip.MustParseAddr("10.0.0.1"), uint16(w.port))
}

// remote returns address index a in one of its representations (IPv4 either plain or IPv4-mapped).
func c12Remote(a int, mapped bool) netip.AddrPort {
	ap := c12Remotes[a]
	if mapped && ap.Addr().Is4() {
		return netip.AddrPortFrom(netip.AddrFrom16(ap.Addr().As16()), ap.Port())
	}
	return ap
}

func c12Canon(ap netip.AddrPort) netip.AddrPort {
	return netip.AddrPortFrom(ap.Addr().Unmap().WithZone(""), ap.Port())
}

// doGet calls GetConn and, on success, starts the reader goroutine of the new handle.
func (w *c12World) doGet(u, fam, hidx int, useAP bool) bool {
	conn, err := w.mux.GetConn(c12Ufrags[u], w.localAddr(fam))
	h := &c12Handle{idx: hidx, last: -1}
	w.mu.Lock()
	for len(w.handles) <= hidx {
		w.handles = append(w.handles, nil)
	}
	w.handles[hidx] = h
	w.mu.Unlock()
	if err != nil {
		h.closed = true
		return false
	}
	h.conn = conn
	if ap, ok := conn.(ice.AddrPortReaderWriter); ok && useAP {
		h.ap = ap
	}
	go func() {
		buf := make([]byte, 2048)
		for {
			var r c12Rec
			r.call = w.stamp()
			var n int
			if h.ap != nil {
				n, r.src, r.err = h.ap.ReadFromAddrPort(buf)
			} else {
				var from net.Addr
				n, from, r.err = conn.ReadFrom(buf)
				if ua, ok := from.(*net.UDPAddr); ok && ua != nil {
					r.src = ua.AddrPort()
				}
			}
			r.ret = w.stamp()
			r.data = append([]byte(nil), buf[:n]...)
			w.mu.Lock()
			h.recs = append(h.recs, r)
			w.mu.Unlock()
			if r.err != nil {
				return
			}
		}
	}()
	return true
}

func (w *c12World) doWrite(hidx, a int, mapped, useAP bool) bool {
	w.lastEmit = 0
	h := w.handles[hidx]
	if h == nil || h.conn == nil {
		return false
	}
	ap := c12Remote(a, mapped)
	payload := []byte(fmt.Sprintf("out-%d", w.stamp()))
	var err error
	if h.ap != nil && useAP {
		_, err = h.ap.WriteToAddrPort(payload, ap)
	} else {
		ip := ap.Addr().AsSlice()
		_, err = h.conn.WriteTo(payload, &net.UDPAddr{IP: ip, Port: int(ap.Port())})
	}
	w.emitMu.Lock()
	w.lastEmit = w.emitAt[string(payload)]
	w.emitMu.Unlock()
	return err == nil
}

// Inbound payload kinds.
const (
	c12KUser      = iota // STUN Binding request, USERNAME "<u>:<peer>"
	c12KUserMulti        // USERNAME "<u>:<peer>:more"
	c12KSwapped          // USERNAME "<unknown>:<u>" (the known ufrag is on the wrong side of ':')
	c12KUnknown          // USERNAME "zz:<u>"
	c12KNoUser           // STUN without USERNAME
	c12KNonSTUN          // not a STUN message
	c12KBadSTUN          // STUN magic cookie but undecodable (length field lies)
	c12KXorResp          // Binding success response with XOR-MAPPED-ADDRESS, no USERNAME (what every ICE peer and every STUN server answers)
	c12Kinds
)

var c12KindName = []string{"user", "user-multi", "swapped", "unknown", "no-username", "non-stun", "bad-stun", "xor-response"}

// mkPayload builds a unique payload; u is the local ufrag named (kinds that name one), peer another ufrag index.
func (w *c12World) mkPayload(kind, u, peer, a int, mapped bool) *c12Pay {
	w.uniq++
	id := len(w.pays)
	p := &c12Pay{id: id, a: a, su: -1, src: c12Remote(a, mapped), readBy: -1}
	req := func(name *string) []byte {
		return rig.MsgSpec{Class: stun.ClassRequest, Method: stun.MethodBinding, Seq: w.uniq, Username: name,
			Integrity: rig.IntAbsent, Fingerprint: rig.FpAbsent}.Build()
	}
	switch kind {
	case c12KUser:
		p.bytes = req(rig.Str(c12Ufrags[u] + ":" + c12Ufrags[peer]))
		p.su = u
	case c12KUserMulti:
		p.bytes = req(rig.Str(c12Ufrags[u] + ":" + c12Ufrags[peer] + ":x"))
		p.su = u
	case c12KSwapped:
		p.bytes = req(rig.Str("remote:" + c12Ufrags[u]))
	case c12KUnknown:
		p.bytes = req(rig.Str("zz:" + c12Ufrags[u]))
	case c12KNoUser:
		p.bytes = req(nil)
	case c12KNonSTUN:
		p.bytes = []byte(fmt.Sprintf("data-%06d-%s", w.uniq, strings.Repeat("x", int(w.uniq%40))))
	case c12KBadSTUN:
		p.bytes = req(rig.Str(c12Ufrags[u] + ":" + c12Ufrags[peer]))
		p.bytes[3] += 4 // declared length exceeds what is there
	case c12KXorResp:
		refl := netip.AddrPortFrom(netip.MustParseAddr("198.51.100.7"), uint16(40000+w.uniq%1000))
		p.bytes = rig.MsgSpec{Class: stun.ClassSuccessResponse, Method: stun.MethodBinding, Seq: w.uniq, XorAddr: &refl,
			Integrity: rig.IntAbsent, Fingerprint: rig.FpAbsent}.Build()
	}
	if p.su >= w.nU {
		p.su = -1 // names a ufrag nobody uses in this run
	}
	p.desc = fmt.Sprintf("%s/u%d", c12KindName[kind], u)
	w.pays = append(w.pays, p)
	w.byBytes[string(p.bytes)] = id
	return p
}

// arrive hands the payload to the shared socket; false if the socket is gone.
func (w *c12World) arrive(p *c12Pay) bool {
	d := w.w.Inject(p.src, w.dst(), p.bytes, "c12")
	p.callAt = w.stamp()
	res, _ := w.w.Deliver(d)
	if res != simnet.Delivered {
		return false
	}
	w.mu.Lock()
	p.arr = w.arr
	w.arr++
	p.arrived = true
	w.mu.Unlock()
	return true
}

func (w *c12World) drainWire() {
	for _, d := range w.w.InFlight() {
		w.w.Drop(d)
	}
}

// collect processes what the readers got since the last call: the safety clauses that need no model
// (unique, byte-identical, true source, per-handle arrival order). It returns the new (handle, payload) pairs.
func (w *c12World) collect() [][2]int {
	var out [][2]int
	w.mu.Lock()
	defer w.mu.Unlock()
	for _, h := range w.handles {
		if h == nil {
			continue
		}
		for ; h.seen < len(h.recs); h.seen++ {
			r := h.recs[h.seen]
			if r.err != nil {
				w.c.Logf("h%d reader ends", h.idx)
				continue
			}
			id, ok := w.byBytes[string(r.data)]
			if !ok {
				w.c.Failf("C12/payload-not-identical", "handle h%d read %d bytes that match no datagram sent to the mux: %q", h.idx, len(r.data), r.data)
				return out
			}
			p := w.pays[id]
			w.c.Logf("h%d read p%d", h.idx, id)
			if p.read {
				w.c.Failf("C12/delivered-twice", "payload p%d (%s) was read by h%d and again by h%d", id, p.desc, p.readBy, h.idx)
				return out
			}
			p.read, p.readBy, p.readRet = true, h.idx, r.ret
			if c12Canon(r.src) != c12Canon(p.src) {
				w.c.Failf("C12/wrong-source-address", "payload p%d came from %v, h%d was told %v", id, p.src, h.idx, r.src)
				return out
			}
			if p.arr < h.last {
				w.c.Failf("C12/reordered", "h%d read p%d (arrival #%d) after a datagram that arrived later (#%d)", h.idx, id, p.arr, h.last)
				return out
			}
			h.last = p.arr
			out = append(out, [2]int{h.idx, id})
		}
	}
	return out
}

func runC12(c *core.Ctx) {
	if c.T.Bias(1, 20, "short-reads") {
		runC12ShortRead(c)
		return
	}
	if c.T.Bias(1, 12, "multi-two-muxes") {
		runC12MultiTwo(c)
		return
	}
	if c.T.Bias(1, 2, "concurrent") {
		c.Knob("part", "concurrent")
		runC12Conc(c)
		return
	}
	c.Knob("part", "sequential")
	runC12Seq(c)
}

// ---------------------------------------------------------------------------------------------------
// part (a): sequential

func (w *c12World) openHandles() []int {
	var out []int
	for _, h := range w.handles {
		if h != nil && h.conn != nil && !h.closed {
			out = append(out, h.idx)
		}
	}
	return out
}

func (w *c12World) fams() int {
	if w.dual {
		return 2
	}
	return 1
}

func (w *c12World) apply(in c12Op, out c12Res) {
	_, w.st = c12Step(w.st, in, out, false)
}

// checkSeq compares the reads since the last operation with the model's expectation.
func (w *c12World) checkSeq() {
	c := w.c
	got := w.collect()
	if c.Failed() {
		return
	}
	for _, g := range got {
		h, p := g[0], w.pays[g[1]]
		k := int(w.st.HConn[h])
		if p.exp == k {
			c.Probe("delivered")
			continue
		}
		switch {
		case p.exp == 0 && k != 0 && (w.st.CClosed[k-1] || !w.st.CReg[k-1]):
			c.Failf("C12/delivered-after-remove-or-close", "payload p%d (%s from %v) was delivered to h%d whose connection (c%d, ufrag %s) had been removed/closed before the datagram arrived; the model drops it. %s",
				p.id, p.desc, p.src, h, k, c12Ufrags[w.st.CU[k-1]], w.describe())
		case p.exp == 0:
			c.Failf("C12/delivered-but-must-drop", "payload p%d (%s from %v) was delivered to h%d (c%d); no connection wrote to that source and its USERNAME names no registered ufrag of that family. %s",
				p.id, p.desc, p.src, h, k, w.describe())
		default:
			c.Failf("C12/delivered-to-wrong-connection", "payload p%d (%s from %v) was delivered to h%d (c%d, ufrag %s) but belongs to c%d (ufrag %s). %s",
				p.id, p.desc, p.src, h, k, c12Ufrags[w.st.CU[k-1]], p.exp, c12Ufrags[w.st.CU[p.exp-1]], w.describe())
		}
		return
	}
	for _, p := range w.pays {
		if p.arrived && p.exp != 0 && !p.read {
			c.Failf("C12/expected-delivery-missing", "payload p%d (%s from %v) must go to c%d (ufrag %s, family %d) but no handle of it received it. %s",
				p.id, p.desc, p.src, p.exp, c12Ufrags[w.st.CU[p.exp-1]], w.st.CF[p.exp-1], w.describe())
			return
		}
		if p.exp == 0 && !p.read {
			p.arrived = false // settled: dropped as expected
		}
	}
}

func (w *c12World) describe() string {
	s := &w.st
	var b strings.Builder
	b.WriteString("model:")
	for k := 1; k <= int(s.NConn); k++ {
		fmt.Fprintf(&b, " c%d{%s fam%d reg=%v closed=%v refs=%d}", k, c12Ufrags[s.CU[k-1]], s.CF[k-1], s.CReg[k-1], s.CClosed[k-1], s.CRefs[k-1])
	}
	for a, k := range s.Bind {
		if k != 0 {
			fmt.Fprintf(&b, " a%d(%v)->c%d", a, c12Remotes[a], k)
		}
	}
	for h, k := range s.HConn {
		if k != 0 {
			fmt.Fprintf(&b, " h%d->c%d", h, k)
			if s.HClosed[h] {
				b.WriteString("(closed)")
			}
		}
	}
	return b.String()
}

// pickInbound draws an inbound datagram (kind, ufrag named, source address and representation).
func (w *c12World) pickInbound() *c12Pay {
	t := w.c.T
	kind := t.Pick([]int{8, 1, 2, 1, 1, 5, 1, 2}, "inkind")
	u := t.Choose(w.nU+1, "inufrag") // may name a ufrag nobody registered (index nU)
	if u >= len(c12Ufrags) {
		u = len(c12Ufrags) - 1
	}
	peer := t.Choose(w.nU, "inpeer")
	a := t.Choose(len(c12Remotes), "insrc")
	mapped := t.Bias(1, 3, "inmapped")
	return w.mkPayload(kind, u, peer, a, mapped)
}

func runC12Seq(c *core.Ctx) {
	t := c.T
	w := newC12World(c)
	if w == nil {
		return
	}
	w.nU = t.Range(2, 4, "nufrags")
	nOps := t.Range(6, 34, "nops")
	synctest.Wait()
	for i := 0; i < nOps && !c.Failed(); i++ {
		c.Step++
		open := w.openHandles()
		weights := []int{4, 5, 8, 1, 1, 0}
		if len(open) == 0 {
			weights[1], weights[4] = 0, 0
		}
		if len(w.handles) >= c12MaxH-1 || int(w.st.NConn) >= c12MaxConn-1 {
			weights[0] = 0
		}
		if i > 4 && t.Bias(1, 60, "muxclose") && !w.closed {
			weights = []int{0, 0, 0, 0, 0, 1}
		}
		switch t.Pick(weights, "op") {
		case c12OpGet:
			u, f := t.Choose(w.nU, "ufrag"), t.Choose(w.fams(), "fam")
			if w.avoid["reget-while-removed-open"] && w.removedOpen(u) {
				continue
			}
			hidx := len(w.handles)
			ok := w.doGet(u, f, hidx, t.Bias(1, 2, "readAP"))
			c.Logf("GetConn(%s,fam%d) -> h%d ok=%v", c12Ufrags[u], f, hidx, ok)
			if ok == w.closed {
				c.Probe("getconn-result-vs-mux-closed")
			}
			w.apply(c12Op{Kind: c12OpGet, U: u, F: f, H: hidx}, c12Res{OK: ok})
			c.State(fmt.Sprintf("conns=%d", w.st.NConn))
		case c12OpWrite:
			h := open[t.Choose(len(open), "handle")]
			a := t.Choose(len(c12Remotes), "dst")
			k := int(w.st.HConn[h])
			if w.avoid["write-after-remove"] && k != 0 && !w.st.CReg[k-1] {
				continue
			}
			prev := int(w.st.Bind[a])
			// socket fault: the operating system refuses this send (ENOBUFS, EPERM, a deadline). Injected only
			// where it changes nothing under either reading of "wrote to": the address is bound to this very
			// connection already, by an earlier write that did go out
			fault := k != 0 && prev == k && w.st.CReg[k-1] && !w.st.CClosed[k-1] && !w.closed && t.Bias(1, 3, "socket-write-error")
			if fault {
				w.w.Lock()
				w.sock.WriteErr = errInjected
				w.w.Unlock()
				c.Fault("socket-write-error-on-bound-address")
			}
			ok := w.doWrite(h, a, t.Bias(1, 3, "mapped"), t.Bias(1, 2, "writeAP"))
			if fault {
				w.w.Lock()
				w.sock.WriteErr = nil
				w.w.Unlock()
				if ok {
					c.Failf("C12/write-error-swallowed", "the socket refused the send, WriteTo reported success")
					return
				}
			}
			c.Logf("h%d.WriteTo(a%d) ok=%v", h, a, ok)
			w.apply(c12Op{Kind: c12OpWrite, H: h, A: a}, c12Res{OK: ok})
			if now := int(w.st.Bind[a]); prev != 0 && now != prev {
				c.Probe("address-takeover")
			}
			if k != 0 && !w.st.CReg[k-1] {
				c.Probe("write-on-removed-conn")
			}
		case c12OpIn:
			burst := 1 + t.Pick([]int{6, 2, 1}, "burst")
			for j := 0; j < burst; j++ {
				p := w.pickInbound()
				p.strict = true
				p.exp = w.st.route(p.a, p.su)
				ok := w.arrive(p)
				c.Logf("inbound p%d %s from %v exp=c%d arrived=%v", p.id, p.desc, p.src, p.exp, ok)
				if p.exp != 0 {
					if int(w.st.Bind[p.a]) == p.exp {
						c.State("route:by-address")
						if p.su >= 0 && int(w.st.Reg[p.su][c12Fam(p.a)]) != p.exp {
							c.Probe("address-rule-overrides-username")
						}
					} else {
						c.State("route:by-ufrag")
					}
				} else {
					c.State("route:drop")
				}
				if p.src != c12Canon(p.src) {
					c.Probe("ipv4-mapped-source")
				}
			}
		case c12OpRemove:
			u := t.Choose(w.nU, "ufrag")
			w.mux.RemoveConnByUfrag(c12Ufrags[u])
			c.Logf("RemoveConnByUfrag(%s)", c12Ufrags[u])
			w.apply(c12Op{Kind: c12OpRemove, U: u}, c12Res{OK: true})
			c.Probe("remove")
		case c12OpClose:
			h := open[t.Choose(len(open), "handle")]
			w.handles[h].closed = true
			_ = w.handles[h].conn.Close()
			c.Logf("h%d.Close", h)
			k := int(w.st.HConn[h])
			w.apply(c12Op{Kind: c12OpClose, H: h}, c12Res{OK: true})
			if k != 0 && w.st.CClosed[k-1] {
				c.Probe("last-handle-closed")
			}
		case c12OpMuxClose:
			_ = w.mux.Close()
			w.closed = true
			c.Logf("mux.Close")
			w.apply(c12Op{Kind: c12OpMuxClose}, c12Res{OK: true})
			c.Fault("mux-close")
		}
		synctest.Wait()
		w.drainWire()
		w.checkSeq()
	}
}

// removedOpen reports whether a removed but still open connection of ufrag u exists in the model.
func (w *c12World) removedOpen(u int) bool {
	for k := 1; k <= int(w.st.NConn); k++ {
		if int(w.st.CU[k-1]) == u && !w.st.CReg[k-1] && !w.st.CClosed[k-1] {
			return true
		}
	}
	return false
}

// ---------------------------------------------------------------------------------------------------
// part (b): concurrent

// c12QuietGC keeps the garbage collector from running in the middle of a scheduled run: a collection
// stops the world, the goroutine that was running is requeued behind the others, and the order in which
// goroutines woken in the same step reach their park sites (which the scheduler's canonical order uses as
// tie-breaker) would depend on heap pacing. Collections happen between runs instead.
func c12QuietGC(c *core.Ctx) {
	if c.Run%16 == 0 {
		runtime.GC()
	}
	old := debug.SetGCPercent(-1)
	c.Defer(func() { debug.SetGCPercent(old) })
}

// c12Sync runs f on its own goroutine (the root goroutine is the scheduler and must never park at a site)
// and steps the scheduler until everything is quiescent again.
func c12Sync(s *sched.Sched, f func()) bool {
	done := make(chan struct{})
	go func() { f(); close(done) }()
	s.Run(3000)
	select {
	case <-done:
		return true
	default:
		return false
	}
}

// lateReads: the owner of a handle whose reader was told "closed" asks once more, after everything is quiet. A
// connection that was removed or closed receives nothing - whatever was in flight when it was closed included.
func (w *c12World) lateReads(run func(func())) {
	w.mu.Lock()
	var ended []*c12Handle
	for _, h := range w.handles {
		if h != nil && h.conn != nil && len(h.recs) > 0 && h.recs[len(h.recs)-1].err != nil {
			ended = append(ended, h)
		}
	}
	w.mu.Unlock()
	for _, h := range ended {
		var n int
		var err error
		returned := false
		buf := make([]byte, 2048)
		run(func() {
			_ = h.conn.SetReadDeadline(time.Now().Add(-time.Second))
			n, _, err = h.conn.ReadFrom(buf)
			returned = true
		})
		if returned && err == nil {
			w.c.Failf("C12/closed-connection-received", "h%d had been told that its connection is closed; a later read returned %d bytes (%q): a datagram was queued on the connection after it was removed or closed",
				h.idx, n, buf[:min(n, 40)])
			return
		}
		w.c.Probe("late-read-of-closed-handle")
	}
}

type c12Task struct {
	ops []c12TaskOp
}

type c12TaskOp struct {
	in        c12Op
	mapped    bool
	useAP     bool
	pay       *c12Pay
	out       c12Res
	call, ret int64
	emit      int64 // stamp at which the datagram of a write entered the wire (0 = it never did)
	done      bool
	skipped   bool
}

func (w *c12World) exec(op *c12TaskOp) {
	op.call = w.stamp()
	switch op.in.Kind {
	case c12OpGet:
		op.out.OK = w.doGet(op.in.U, op.in.F, op.in.H, op.useAP)
	case c12OpWrite:
		op.out.OK = w.doWrite(op.in.H, op.in.A, op.mapped, op.useAP)
		op.emit = w.lastEmit
	case c12OpIn:
		if !w.arrive(op.pay) {
			op.skipped = true
		}
		op.call = op.pay.callAt
		op.out.OK = true
	case c12OpRemove:
		w.mux.RemoveConnByUfrag(c12Ufrags[op.in.U])
		op.out.OK = true
	case c12OpClose:
		if h := w.handles[op.in.H]; h != nil && h.conn != nil {
			_ = h.conn.Close()
		}
		op.out.OK = true
	case c12OpMuxClose:
		_ = w.mux.Close()
		op.out.OK = true
	}
	op.ret = w.stamp()
	if op.emit != 0 && op.emit < op.ret {
		// "most recently wrote to the source address": once the datagram is on the wire the peer can answer
		// it, so the binding must be in effect by then - the write takes effect between its call and the
		// emission of its datagram, not merely before WriteTo returns
		op.ret = op.emit
	}
	op.done = true
}

func runC12Conc(c *core.Ctx) {
	t := c.T
	w := newC12World(c)
	if w == nil {
		return
	}
	c12QuietGC(c)
	s := sched.Install(c, nil)
	// The worker decides a datagram's route in two critical sections (address table, then ufrag table). Parked
	// between them, it can hand a datagram from a source that WAS unbound to a connection that is registered
	// under its ufrag only NOW - after another connection has written to that source meanwhile. No single
	// instant explains that, so the history is not linearizable; the datagram still reaches the ufrag it names
	// and nobody else's. The statement fixes no instant for the decision: judged benign (thorough tier, seed 3,
	// 5 of 31 M runs) and the window between the two lookups is not explored.
	s.Disabled = map[string]bool{"udpmux.connWorker.afterAddrLookup": true}
	w.nU = t.Range(2, 3, "nufrags")
	synctest.Wait()

	// prologue: a few handles and bindings, one operation at a time (model state known exactly)
	nPro := t.Range(1, 4, "npro")
	for i := 0; i < nPro; i++ {
		u, f := t.Choose(w.nU, "ufrag"), t.Choose(w.fams(), "fam")
		hidx := len(w.handles)
		useAP := t.Bias(1, 2, "readAP")
		var ok bool
		c12Sync(s, func() { ok = w.doGet(u, f, hidx, useAP) })
		c.Logf("pro GetConn(%s,fam%d) -> h%d ok=%v", c12Ufrags[u], f, hidx, ok)
		w.apply(c12Op{Kind: c12OpGet, U: u, F: f, H: hidx}, c12Res{OK: ok})
		if t.Bias(1, 2, "prowrite") {
			a := t.Choose(len(c12Remotes), "dst")
			mapped := t.Bias(1, 3, "mapped")
			var ok bool
			c12Sync(s, func() { ok = w.doWrite(hidx, a, mapped, false) })
			c.Logf("pro h%d.WriteTo(a%d) ok=%v", hidx, a, ok)
			w.apply(c12Op{Kind: c12OpWrite, H: hidx, A: a}, c12Res{OK: ok})
		}
	}
	w.drainWire()
	init0 := w.st
	proHandles := len(w.handles)

	// the concurrent tasks
	nTasks := t.Range(2, 5, "ntasks")
	budget := 7
	nIn := 0
	nextH := proHandles
	var tasks []*c12Task
	for i := 0; i < nTasks && budget > 0; i++ {
		tk := &c12Task{}
		weights := []int{2, 4, 5, 2, 2}
		if nIn >= 3 {
			weights[2] = 0
		}
		kind := t.Pick(weights, "op")
		if t.Bias(1, 40, "muxclose") {
			kind = c12OpMuxClose
		}
		switch kind {
		case c12OpGet:
			u, f := t.Choose(w.nU, "ufrag"), t.Choose(w.fams(), "fam")
			h := nextH
			nextH++
			tk.ops = append(tk.ops, c12TaskOp{in: c12Op{Kind: c12OpGet, U: u, F: f, H: h}, useAP: t.Bias(1, 2, "readAP")})
			switch t.Pick([]int{2, 2, 1}, "then") {
			case 1:
				tk.ops = append(tk.ops, c12TaskOp{in: c12Op{Kind: c12OpWrite, H: h, A: t.Choose(len(c12Remotes), "dst")}, mapped: t.Bias(1, 3, "mapped")})
			case 2:
				tk.ops = append(tk.ops, c12TaskOp{in: c12Op{Kind: c12OpClose, H: h}})
			}
		case c12OpWrite:
			h := t.Choose(proHandles, "handle")
			tk.ops = append(tk.ops, c12TaskOp{in: c12Op{Kind: c12OpWrite, H: h, A: t.Choose(len(c12Remotes), "dst")},
				mapped: t.Bias(1, 3, "mapped"), useAP: t.Bias(1, 2, "writeAP")})
		case c12OpIn:
			p := w.pickInbound()
			nIn++
			tk.ops = append(tk.ops, c12TaskOp{in: c12Op{Kind: c12OpIn, A: p.a, SU: p.su, Pay: p.id, Desc: p.desc}, pay: p})
		case c12OpRemove:
			tk.ops = append(tk.ops, c12TaskOp{in: c12Op{Kind: c12OpRemove, U: t.Choose(w.nU, "ufrag")}})
		case c12OpClose:
			tk.ops = append(tk.ops, c12TaskOp{in: c12Op{Kind: c12OpClose, H: t.Choose(proHandles, "handle")}})
		case c12OpMuxClose:
			tk.ops = append(tk.ops, c12TaskOp{in: c12Op{Kind: c12OpMuxClose}})
		}
		budget -= len(tk.ops)
		tasks = append(tasks, tk)
	}
	var wg sync.WaitGroup
	for _, tk := range tasks {
		tk := tk
		wg.Add(1)
		go func() {
			defer wg.Done()
			for i := range tk.ops {
				s.Yield("harness.c12.task")
				w.exec(&tk.ops[i])
			}
		}()
	}
	done := make(chan struct{})
	go func() { wg.Wait(); close(done) }()
	steps := s.Run(5000)
	c.Knob("schedSteps", steps)
	select {
	case <-done:
	default:
		c.Failf("harness/c12-tasks-stuck", "after %d scheduling steps the operations have not all returned (parked: %s)", steps, s.Describe())
		return
	}
	phaseEnd := w.stamp()
	w.collect()
	if c.Failed() {
		return
	}
	w.lateReads(func(f func()) { c12Sync(s, f) })
	if c.Failed() {
		return
	}

	// epilogue: strict probes, one at a time, of the state the concurrent phase left behind
	var probes []*c12TaskOp
	for i, n := 0, t.Range(1, 2, "nprobes"); i < n; i++ {
		var p *c12Pay
		if t.Bias(1, 2, "probe-any") {
			p = w.pickInbound()
		} else {
			p = w.mkPayload(c12KUser, t.Choose(w.nU, "ufrag"), 0, t.Choose(len(c12Remotes), "insrc"), false)
		}
		p.strict = true
		op := &c12TaskOp{in: c12Op{Kind: c12OpIn, A: p.a, SU: p.su, Pay: p.id, Strict: true, Desc: p.desc}, pay: p}
		w.exec(op)
		s.Run(3000)
		op.ret = w.stamp()
		w.collect()
		if c.Failed() {
			return
		}
		probes = append(probes, op)
	}
	w.drainWire()

	live := false
	for site, n := range s.Parks {
		if n > 0 && !strings.HasPrefix(site, "harness.") {
			live = true
			c.Probe("site:" + site)
		}
	}
	if live {
		c.Knob("yieldSites", "live")
	} else {
		c.Knob("yieldSites", "absent: operations run atomically, only their order is explored")
		c.Probe("yield-sites-absent")
	}

	// history
	var hist []porcupine.Operation
	var lines []string
	add := func(client int, in c12Op, out c12Res, call, ret int64) {
		hist = append(hist, porcupine.Operation{ClientId: client, Input: in, Output: out, Call: call, Return: ret})
		lines = append(lines, fmt.Sprintf("[%d,%d] %s", call, ret, c12DescribeOp(in, out)))
	}
	emitIn := func(client int, op *c12TaskOp, end int64) {
		if op.skipped {
			return
		}
		in := op.in
		in.Arr, in.EverRead = op.pay.arr, op.pay.read
		ret := end
		if op.pay.read {
			ret = op.pay.readRet
		}
		add(client, in, op.out, op.call, ret)
	}
	for ti, tk := range tasks {
		for i := range tk.ops {
			op := &tk.ops[i]
			if op.in.Kind == c12OpIn {
				emitIn(ti, op, phaseEnd)
			} else {
				add(ti, op.in, op.out, op.call, op.ret)
			}
		}
	}
	for _, op := range probes {
		emitIn(len(tasks), op, op.ret)
	}
	for _, h := range w.handles {
		if h == nil {
			continue
		}
		for _, r := range h.recs {
			if r.err == nil {
				add(100+h.idx, c12Op{Kind: c12OpRead, H: h.idx}, c12Res{OK: true, Pay: w.byBytes[string(r.data)]}, r.call, r.ret)
			}
		}
	}
	for _, l := range lines {
		c.Logf("hist %s", l)
	}
	c.Knob("historyOps", len(hist))
	var stepsUsed atomic.Int64
	const stepBudget = 3_000_000
	model := porcupine.Model{
		Init: func() interface{} { return init0 },
		Step: func(state, input, output interface{}) (bool, interface{}) {
			if stepsUsed.Add(1) > stepBudget {
				return false, state
			}
			return c12Step(state.(c12St), input.(c12Op), output.(c12Res), true)
		},
		DescribeOperation: func(in, out interface{}) string { return c12DescribeOp(in.(c12Op), out.(c12Res)) },
	}
	res := porcupine.CheckOperationsTimeout(model, hist, 5*time.Second)
	if res == porcupine.Illegal {
		// writes that reported an error may or may not count as "wrote to the address" (see c12Res.Bound)
		var failed []int
		for i, op := range hist {
			if in := op.Input.(c12Op); in.Kind == c12OpWrite && !op.Output.(c12Res).OK {
				failed = append(failed, i)
			}
		}
		if len(failed) > 4 {
			failed = failed[:4]
		}
		for mask := 1; mask < 1<<len(failed) && res == porcupine.Illegal; mask++ {
			alt := append([]porcupine.Operation(nil), hist...)
			for b, i := range failed {
				if mask&(1<<b) != 0 {
					out := alt[i].Output.(c12Res)
					out.Bound = true
					alt[i].Output = out
				}
			}
			if r := porcupine.CheckOperationsTimeout(model, alt, 5*time.Second); r != porcupine.Illegal {
				res = r
				c.Probe("failed-write-counted-as-write")
			}
		}
	}
	switch {
	case res == porcupine.Unknown || stepsUsed.Load() > stepBudget:
		c.Probe("porcupine-inconclusive")
	case res == porcupine.Illegal:
		c.Failf("C12/not-linearizable", "no sequential order of the operations, consistent with their call/return times, explains what the readers got.\ninitial %s\nhistory (stamps are global event numbers):\n%s",
			(&c12World{st: init0}).describe(), strings.Join(lines, "\n"))
	default:
		c.Probe("linearizable")
	}
}

// ---------------------------------------------------------------------------------------------------
// reference model

// Reference model of the UDP mux routing statement (C12). It is a pure function over a
// comparable state so that the same code serves the sequential oracle (apply the ops in
// order, compare every observation) and the porcupine linearizability model.

const (
	c12MaxConn = 16
	c12MaxH    = 16
	c12MaxU    = 4
	c12MaxAddr = 6
	c12QLen    = 8
)

const (
	c12OpGet = iota
	c12OpWrite
	c12OpIn
	c12OpRemove
	c12OpClose
	c12OpMuxClose
	c12OpRead
)

var c12OpName = []string{"GetConn", "WriteTo", "Inbound", "RemoveConnByUfrag", "Close", "MuxClose", "Read"}

// c12St is the model state. Indices are stored +1 so that the zero value means "none".
type c12St struct {
	MuxClosed bool
	NConn     int8
	CU, CF    [c12MaxConn]int8
	CReg      [c12MaxConn]bool // registered under (CU,CF)
	CClosed   [c12MaxConn]bool
	CRefs     [c12MaxConn]int8
	Reg       [c12MaxU][2]int8           // ufrag x family -> conn+1
	Bind      [c12MaxAddr]int8           // canonical remote address -> conn+1 (most recent writer)
	HConn     [c12MaxH]int8              // handle -> conn+1 (0: not handed out)
	HClosed   [c12MaxH]bool              // handle closed by its user
	Q         [c12MaxConn][c12QLen]int16 // per-connection FIFO of payload+1 (only used by the linearizability model)
	NextIn    int16                      // datagrams are routed in arrival order
}

// c12Op is the input of one operation.
type c12Op struct {
	Kind int
	U, F int // GetConn / Remove
	H    int // GetConn (the handle it yields), WriteTo, Close, Read
	A    int // canonical remote address index (WriteTo, Inbound)
	SU   int // Inbound: ufrag index named before ':' in a decodable STUN USERNAME, -1 if none/unknown
	Pay  int // Inbound: payload id
	Arr  int // Inbound: arrival index at the shared socket
	// Inbound: Strict = a drop is not excused by concurrency (sequential probe);
	// EverRead = some reader got this payload.
	Strict, EverRead bool
	Desc             string
}

// c12Res is the output of one operation.
type c12Res struct {
	OK  bool
	Pay int // Read: payload id
	// Bound (WriteTo that reported an error): the write is taken to have bound the address all the same. The
	// statement speaks of the connection that "wrote to" the address; whether a write that ended in an error
	// (the mux was closed under it, the socket refused it) counts is not said, and the datagram may or may not
	// have left. Both readings are accepted: the linearizability check tries both for every failed write.
	Bound bool
}

func c12Fam(a int) int {
	if a >= 3 {
		return 1
	}
	return 0
}

// route is the statement's routing rule: the most recent writer to the source address, else the
// connection registered for the source's family under the USERNAME's ufrag, else nobody.
func (s *c12St) route(a, su int) int {
	if s.MuxClosed {
		return 0
	}
	if k := int(s.Bind[a]); k != 0 {
		return k
	}
	if su >= 0 {
		return int(s.Reg[su][c12Fam(a)])
	}
	return 0
}

func (s *c12St) dropConn(k int, closed bool) {
	i := k - 1
	if s.CReg[i] && int(s.Reg[s.CU[i]][s.CF[i]]) == k {
		s.Reg[s.CU[i]][s.CF[i]] = 0
	}
	s.CReg[i] = false
	for a := range s.Bind {
		if int(s.Bind[a]) == k {
			s.Bind[a] = 0
		}
	}
	if closed {
		s.CClosed[i] = true
		s.Q[i] = [c12QLen]int16{}
	}
}

func (s *c12St) push(k, pay int) bool {
	q := &s.Q[k-1]
	for i := range q {
		if q[i] == 0 {
			q[i] = int16(pay + 1)
			return true
		}
	}
	return false
}

func (s *c12St) pop(k, pay int) bool {
	q := &s.Q[k-1]
	if q[0] != int16(pay+1) {
		return false
	}
	copy(q[:], q[1:])
	q[c12QLen-1] = 0
	return true
}

// c12Step applies op to s. queue says whether the per-connection queues are tracked (linearizability
// model) or the caller compares deliveries itself (sequential oracle).
func c12Step(s c12St, in c12Op, out c12Res, queue bool) (bool, c12St) {
	switch in.Kind {
	case c12OpGet:
		if !out.OK {
			return true, s
		}
		if s.MuxClosed {
			// not covered by the statement: a handle from a closed mux is a handle on a dead connection
			if int(s.NConn) >= c12MaxConn {
				return true, s
			}
			k := int(s.NConn) + 1
			s.NConn++
			s.CU[k-1], s.CF[k-1], s.CClosed[k-1], s.CRefs[k-1] = int8(in.U), int8(in.F), true, 1
			s.HConn[in.H] = int8(k)
			return true, s
		}
		k := int(s.Reg[in.U][in.F])
		if k == 0 {
			if int(s.NConn) >= c12MaxConn {
				return false, s
			}
			k = int(s.NConn) + 1
			s.NConn++
			s.CU[k-1], s.CF[k-1], s.CReg[k-1] = int8(in.U), int8(in.F), true
			s.Reg[in.U][in.F] = int8(k)
		}
		s.CRefs[k-1]++
		s.HConn[in.H] = int8(k)
		return true, s
	case c12OpWrite:
		k := int(s.HConn[in.H])
		if k == 0 || !(out.OK || out.Bound) || s.MuxClosed || s.CClosed[k-1] || !s.CReg[k-1] {
			// no effect: the write failed (closed handle, closed connection) or the connection was removed.
			// A write that was pending when its handle was closed and still went out counts as a write of
			// the connection (which lives on through the sibling handles).
			return true, s
		}
		s.Bind[in.A] = int8(k)
		return true, s
	case c12OpIn:
		if queue {
			if in.Arr != int(s.NextIn) {
				return false, s
			}
			s.NextIn++
		}
		dest := s.route(in.A, in.SU)
		if in.EverRead {
			if dest == 0 {
				return false, s
			}
			if queue && !s.push(dest, in.Pay) {
				return false, s
			}
			return true, s
		}
		if in.Strict && dest != 0 {
			return false, s
		}
		return true, s
	case c12OpRead:
		k := int(s.HConn[in.H])
		if k == 0 || !s.pop(k, out.Pay) {
			return false, s
		}
		return true, s
	case c12OpRemove:
		for f := 0; f < 2; f++ {
			if k := int(s.Reg[in.U][f]); k != 0 {
				s.dropConn(k, false)
			}
		}
		return true, s
	case c12OpClose:
		k := int(s.HConn[in.H])
		if k == 0 || s.HClosed[in.H] {
			return true, s
		}
		s.HClosed[in.H] = true
		s.CRefs[k-1]--
		if s.CRefs[k-1] <= 0 && !s.CClosed[k-1] {
			s.dropConn(k, true)
		}
		return true, s
	case c12OpMuxClose:
		s.MuxClosed = true
		for k := 1; k <= int(s.NConn); k++ {
			if s.CReg[k-1] {
				s.dropConn(k, true)
			}
		}
		return true, s
	}
	return false, s
}

func c12DescribeOp(in c12Op, out c12Res) string {
	switch in.Kind {
	case c12OpGet:
		return fmt.Sprintf("GetConn(u%d,fam%d)->h%d ok=%v", in.U, in.F, in.H, out.OK)
	case c12OpWrite:
		return fmt.Sprintf("h%d.WriteTo(a%d) ok=%v", in.H, in.A, out.OK)
	case c12OpIn:
		return fmt.Sprintf("In#%d(p%d from a%d user=u%d strict=%v read=%v %s)", in.Arr, in.Pay, in.A, in.SU, in.Strict, in.EverRead, in.Desc)
	case c12OpRead:
		return fmt.Sprintf("h%d.Read->p%d", in.H, out.Pay)
	case c12OpRemove:
		return fmt.Sprintf("RemoveConnByUfrag(u%d)", in.U)
	case c12OpClose:
		return fmt.Sprintf("h%d.Close", in.H)
	case c12OpMuxClose:
		return "mux.Close"
	}
	return "?"
}
