package checks

import (
	"errors"
	"fmt"
	"net"
	"net/netip"
	"sort"
	"strings"
	"syscall"
	"testing/synctest"
	"time"

	"github.com/pion/ice/v4"
	"github.com/pion/stun/v3"

	"verif/sim/core"
	"verif/sim/rig"
	"verif/sim/simnet"
	"verif/sim/simstream"
)

func init() {
	core.Register(&core.Spec{ID: "C18", Fn: runC18})
}

type c18Cfg struct {
	netTypes     []ice.NetworkType
	srflx        bool
	portMin      uint16
	portMax      uint16
	ifaceMode    int // 0 none, 1 exclude eth2, 2 only eth0
	ipMode       int // 0 none, 1 exclude 10.0.1.11
	loopback     bool
	listenFaults bool
	mdns         bool // mDNS gather mode: the name is published instead of the IP
	tcpMux       bool // a TCP mux listens on every address: TCP is a transport "that has a listener"
	relayType    bool // the relay candidate type is enabled too (no TURN URL: it yields nothing)
}

func (k c18Cfg) String() string {
	return fmt.Sprintf("net=%v srflx=%v ports=%d-%d iface=%d ip=%d lo=%v lfaults=%v mdns=%v", k.netTypes, k.srflx, k.portMin, k.portMax, k.ifaceMode, k.ipMode, k.loopback, k.listenFaults, k.mdns) + map[bool]string{true: " tcpmux", false: ""}[k.tcpMux] + map[bool]string{true: " relaytype", false: ""}[k.relayType]
}

var c18Ifaces = []simnet.IfaceSpec{
	{Name: "eth0", Addrs: []netip.Prefix{netip.MustParsePrefix("10.0.1.10/24"), netip.MustParsePrefix("2001:db8::10/64"),
		netip.MustParsePrefix("fe80::10/64"), netip.MustParsePrefix("fec0::10/64"), netip.MustParsePrefix("::10.0.1.10/96"),
		// site-local is fec0::/10, not only fec0::/16; link-local is fe80::/10
		netip.MustParsePrefix("fed0::10/64"), netip.MustParsePrefix("feff:1::10/64"), netip.MustParsePrefix("febf::10/64")}},
	{Name: "lo", Flags: net.FlagUp | net.FlagLoopback, Addrs: []netip.Prefix{netip.MustParsePrefix("127.0.0.1/8"),
		// a routable address on the loopback interface (a service address bound to lo): it follows the interface
		netip.MustParsePrefix("10.99.0.1/32")}},
	{Name: "eth1", Flags: net.FlagBroadcast, Addrs: []netip.Prefix{netip.MustParsePrefix("10.0.7.7/24")}}, // down
	{Name: "eth2", Addrs: []netip.Prefix{netip.MustParsePrefix("10.0.1.11/24"), netip.MustParsePrefix("2001:db8::11/64")}},
}

const c18MDNSName = "verif-host-0001.local"

func (k c18Cfg) ifaceOK(name string) bool {
	switch k.ifaceMode {
	case 1:
		return name != "eth2"
	case 2:
		return name == "eth0"
	}
	return true
}

func (k c18Cfg) ipOK(ip netip.Addr) bool {
	return !(k.ipMode == 1 && ip == netip.MustParseAddr("10.0.1.11"))
}

func (k c18Cfg) familyOn(v6 bool) (udp bool) {
	if len(k.netTypes) == 0 {
		return true // documented: an empty list means all network types
	}
	for _, nt := range k.netTypes {
		if nt.IsUDP() && nt.IsIPv6() == v6 {
			return true
		}
	}
	return false
}

func (k c18Cfg) anyFamily(v6 bool) bool {
	if len(k.netTypes) == 0 {
		return true
	}
	for _, nt := range k.netTypes {
		if nt.IsIPv6() == v6 {
			return true
		}
	}
	return false
}

func specialV6(ip netip.Addr) bool {
	if !ip.Is6() {
		return false
	}
	b := ip.As16()
	zero12 := true
	for _, x := range b[:12] {
		if x != 0 {
			zero12 = false
		}
	}
	siteLocal := b[0] == 0xfe && b[1]&0xc0 == 0xc0
	return zero12 || siteLocal || ip.IsLinkLocalUnicast()
}

// eligible: the interface addresses on which the documentation lets the agent gather (written from the
// option documentation, not from the code).
func (k c18Cfg) eligible() []netip.Addr {
	var out []netip.Addr
	for _, ifc := range c18Ifaces {
		flags := ifc.Flags
		if flags == 0 {
			flags = net.FlagUp
		}
		if flags&net.FlagUp == 0 {
			continue
		}
		if flags&net.FlagLoopback != 0 && !k.loopback {
			continue
		}
		if !k.ifaceOK(ifc.Name) {
			continue
		}
		for _, p := range ifc.Addrs {
			ip := p.Addr()
			if ip.IsLoopback() && !k.loopback {
				continue
			}
			if specialV6(ip) || !k.anyFamily(ip.Is6()) || !k.ipOK(ip) {
				continue
			}
			out = append(out, ip)
		}
	}
	return out
}

func runC18(c *core.Ctx) {
	t := c.T
	if t.Bias(1, 10, "continual-policy") {
		runC18Continual(c)
		return
	}
	k := c18Cfg{}
	k.netTypes = [][]ice.NetworkType{
		{ice.NetworkTypeUDP4}, {ice.NetworkTypeUDP4, ice.NetworkTypeUDP6}, {}, {ice.NetworkTypeUDP6},
		{ice.NetworkTypeUDP4, ice.NetworkTypeTCP4}, {ice.NetworkTypeTCP4},
		{ice.NetworkTypeTCP4, ice.NetworkTypeUDP4}, {ice.NetworkTypeUDP6, ice.NetworkTypeTCP4},
	}[t.Pick([]int{4, 3, 2, 2, 1, 1, 1, 1}, "nettypes")]
	k.srflx = t.Bias(1, 3, "srflx")
	switch t.Choose(3, "ports") {
	case 1:
		k.portMin, k.portMax = 6000, 6003
	case 2:
		k.portMin, k.portMax = 6000, 6000
	}
	k.ifaceMode = t.Choose(3, "ifacemode")
	k.ipMode = t.Choose(2, "ipmode")
	k.loopback = t.Bias(1, 3, "loopback")
	k.listenFaults = t.Bias(1, 3, "listenfaults")
	k.mdns = t.Bias(1, 5, "mdns")
	hasTCP4 := false
	for _, nt := range k.netTypes {
		if nt == ice.NetworkTypeTCP4 {
			hasTCP4 = true
		}
	}
	k.tcpMux = !k.mdns && (hasTCP4 || len(k.netTypes) == 0) && t.Bias(1, 2, "tcpmux")
	k.relayType = t.Bias(1, 3, "relaytype")
	busy := t.Bias(1, 3, "busyports")
	restartAt := -1
	if t.Bias(1, 2, "restart?") {
		restartAt = t.Range(0, 12, "restartat")
	}
	c.Knob("cfg", k.String())
	c.Knob("restartAt", restartAt)
	c.Knob("busy", busy)
	c.SetSample(k.String())
	c.Logf("cfg %s restartAt=%d busy=%v", k, restartAt, busy)
	c.MarkNontrivial()

	w := simnet.NewWorld()
	h := w.AddHost("A", c18Ifaces...)
	srv := w.SimpleHost("S", "203.0.113.5", "2001:db8:ffff::5")
	rig.NewStunServer(srv, "203.0.113.5:3478")
	rig.NewStunServer(srv, "[2001:db8:ffff::5]:3478")
	if busy && k.portMin != 0 {
		// other processes already hold ports of the range on some addresses
		for _, ip := range []string{"10.0.1.10", "10.0.1.11"} {
			for p := int(k.portMin); p <= int(k.portMax) && p < int(k.portMin)+t.Range(1, 4, "nbusy"); p++ {
				h.OpenServiceSock(netip.AddrPortFrom(netip.MustParseAddr(ip), uint16(p)), func(*simnet.Datagram) {})
			}
		}
	}
	types := []ice.CandidateType{ice.CandidateTypeHost}
	opts := []ice.AgentOption{ice.WithNetworkTypes(k.netTypes), ice.WithSTUNGatherTimeout(500 * time.Millisecond)}
	if k.srflx {
		types = append(types, ice.CandidateTypeServerReflexive)
		u, _ := stun.ParseURI("stun:203.0.113.5:3478")
		opts = append(opts, ice.WithUrls([]*stun.URI{u}))
	}
	if k.relayType {
		types = append(types, ice.CandidateTypeRelay)
	}
	opts = append(opts, ice.WithCandidateTypes(types))
	if k.tcpMux {
		lst := simstream.Listen(&net.TCPAddr{IP: net.IPv4zero, Port: 7002})
		tm := ice.NewTCPMuxDefault(ice.TCPMuxParams{Listener: lst, Logger: rig.Quiet().NewLogger("tcpmux"), ReadBufferSize: 8})
		c.Defer(func() { _ = tm.Close() })
		opts = append(opts, ice.WithTCPMux(tm), ice.WithDisableActiveTCP())
	}
	if k.portMin != 0 {
		opts = append(opts, ice.WithPortRange(k.portMin, k.portMax))
	}
	if k.ifaceMode != 0 {
		opts = append(opts, ice.WithInterfaceFilter(k.ifaceOK))
	}
	if k.ipMode != 0 {
		opts = append(opts, ice.WithIPFilter(func(ip net.IP) bool {
			a, _ := netip.AddrFromSlice(ip)
			return k.ipOK(a.Unmap())
		}))
	}
	if k.loopback {
		opts = append(opts, ice.WithIncludeLoopback())
	}
	if k.mdns {
		opts = append(opts, ice.WithMulticastDNSMode(ice.MulticastDNSModeQueryAndGather), ice.WithMulticastDNSHostName(c18MDNSName))
	}
	ice.VerifSeedGlobalRand(int64(t.Choose(1000, "randseed")))
	ag, err := rig.NewAgent("A", h, time.Now(), opts...)
	if err != nil {
		c.Failf("harness/setup", "%v (%s)", err, k)
		return
	}
	closed := false
	closeAgent := func() {
		if closed {
			return
		}
		closed = true
		done := make(chan struct{})
		go func() { _ = ag.A.Close(); close(done) }()
		for i := 0; i < 100; i++ {
			synctest.Wait()
			select {
			case <-done:
				// superseded gatherers may still be parked in a simulated listen: let them finish
				for p := w.Parked(); len(p) > 0; p = w.Parked() {
					w.Release(p[0])
					synctest.Wait()
				}
				return
			default:
			}
			if p := w.Parked(); len(p) > 0 {
				w.Release(p[0])
			} else {
				time.Sleep(100 * time.Millisecond)
			}
		}
	}
	c.Defer(closeAgent)
	w.ParkListens = true

	o := &c18Oracle{c: c, k: k, ag: ag, w: w, host: h, failedIPs: map[netip.Addr]bool{}}
	ufrag := ag.Ufrag
	oldParks := map[*simnet.Park]bool{} // listens parked when Restart cancelled their cycle
	oldRelease := -1                    // number of sockets just before such a listen was released
	for cycle := 0; cycle < 2 && !c.Failed(); cycle++ {
		o.beginCycle(ufrag)
		st, _ := ag.A.GetGatheringState()
		if st != ice.GatheringStateNew {
			c.Failf("C18/state-not-new-before-gather", "cycle %d: gathering state %s before GatherCandidates", cycle, st)
			return
		}
		if err := ag.A.GatherCandidates(); err != nil {
			c.Failf("C18/gather-refused", "cycle %d: GatherCandidates in state New returned %v", cycle, err)
			return
		}
		if t.Bias(1, 4, "immediate-second-gather") {
			// back-to-back: the second call arrives before the first cycle's goroutine has advanced the state.
			// It may be refused, or it may supersede the first cycle - but two cycles never overlap, which the
			// candidate stream shows (one nil, nothing after it, one host candidate per address and transport).
			err := ag.A.GatherCandidates()
			c.Fault("back-to-back-gather")
			if err == nil {
				c.Probe("back-to-back-gather-accepted")
			} else if !errors.Is(err, ice.ErrMultipleGatherAttempted) {
				c.Failf("C18/second-gather-error", "back-to-back GatherCandidates returned %v", err)
				return
			}
		}
		backToBack := t.Bias(1, 3, "backtoback")
		restarted := false
		for step := 0; step < 200 && !c.Failed(); step++ {
			synctest.Wait()
			if oldRelease >= 0 {
				// the listen released in the previous step belonged to the cancelled cycle: so does its socket
				for _, so := range w.Sockets()[oldRelease:] {
					o.oldSocks = append(o.oldSocks, so)
				}
				oldRelease = -1
			}
			o.observe()
			if backToBack && step == t.Choose(3, "b2bstep") {
				backToBack = false
				st, _ := ag.A.GetGatheringState()
				err := ag.A.GatherCandidates()
				c.Probe("second-gather-call")
				if st != ice.GatheringStateNew && !errors.Is(err, ice.ErrMultipleGatherAttempted) {
					c.Failf("C18/second-gather-accepted", "GatherCandidates in state %s returned %v", st, err)
					return
				}
				continue
			}
			if cycle == 0 && restartAt == step {
				c.Probe("restart-mid-gather")
				ufrag = "ufragsecondcycle"
				if err := ag.A.Restart(ufrag, "pwdsecondcyclexxxxxxxxxxxxxxxxxxx"); err != nil {
					c.Failf("harness/restart", "%v", err)
					return
				}
				synctest.Wait()
				if st, _ := ag.A.GetGatheringState(); st != ice.GatheringStateNew {
					c.Failf("C18/state-after-restart", "gathering state %s right after Restart", st)
					return
				}
				o.cancelled = true
				restarted = true
				for _, p := range w.Parked() {
					oldParks[p] = true
				}
				break
			}
			parked := w.Parked()
			pool := w.InFlight()
			if len(parked)+len(pool) == 0 {
				if o.sawNil {
					break
				}
				time.Sleep(100 * time.Millisecond)
				continue
			}
			i := t.Choose(len(parked)+len(pool), "item")
			if i < len(parked) {
				p := parked[i]
				if k.listenFaults && t.Bias(1, 5, "listenfail") {
					p.Fail = syscall.EADDRINUSE
					c.Fault("listen-error")
					o.noteListenFailure(p.Key)
				}
				c.Step++
				c.Logf("release %s fail=%v", p.Key, p.Fail != nil)
				if oldParks[p] {
					oldRelease = len(w.Sockets())
					c.Probe("listen-of-cancelled-cycle-released-during-new-cycle")
				}
				w.Release(p)
			} else {
				d := pool[i-len(parked)]
				c.Step++
				if t.Bias(1, 8, "stundrop") {
					w.Drop(d)
					c.Fault("stun-drop")
					c.Logf("drop %s>%s", d.Src, d.Dst)
				} else {
					res, _ := w.Deliver(d)
					c.Logf("deliver %s>%s %s", d.Src, d.Dst, res)
				}
			}
		}
		if c.Failed() {
			return
		}
		if !restarted {
			if !o.sawNil {
				c.Failf("C18/cycle-did-not-complete", "gathering did not complete within the step budget (%s)", k)
				return
			}
			o.endCycle()
			if cycle == 0 {
				// a completed cycle: a further call is refused, Restart returns to New
				if err := ag.A.GatherCandidates(); !errors.Is(err, ice.ErrMultipleGatherAttempted) {
					c.Failf("C18/gather-after-complete-accepted", "GatherCandidates after Complete returned %v", err)
					return
				}
				ufrag = "ufragsecondcycle"
				if err := ag.A.Restart(ufrag, "pwdsecondcyclexxxxxxxxxxxxxxxxxxx"); err != nil {
					c.Failf("harness/restart", "%v", err)
					return
				}
				synctest.Wait()
			}
		} else {
			// the cancelled cycle winds down while the new one runs (late listens are still parked)
			c.Probe("cycle-cancelled")
		}
	}
}

type c18Oracle struct {
	c         *core.Ctx
	k         c18Cfg
	ag        *rig.AgentH
	w         *simnet.World
	ufrag     string
	candSeen  int
	sawNil    bool
	cancelled bool
	states    []ice.GatheringState
	cycleCand []ice.Candidate
	failedIPs map[netip.Addr]bool // addresses on which the simulator failed a listen (no completeness demanded)
	host      *simnet.Host
	failSeen  int
	sockSeen  int
	// cycleSock0: sockets with a smaller id were opened before the running cycle began
	cycleSock0 int
	// oldSocks: sockets a cancelled cycle obtained after the Restart (its listens were still parked)
	oldSocks []*simnet.Sock
}

func (o *c18Oracle) beginCycle(ufrag string) {
	o.ufrag = ufrag
	o.sawNil = false
	o.cancelled = false
	o.states = nil
	o.cycleCand = nil
	o.failedIPs = map[netip.Addr]bool{}
	o.w.Lock()
	o.failSeen = len(o.host.FailedListens)
	o.w.Unlock()
	o.candSeen = len(o.ag.CandSeq())
	o.cycleSock0 = len(o.w.Sockets())
}

func (o *c18Oracle) noteListenFailure(key string) {
	// key = host/network/addr:port
	parts := strings.Split(key, "/")
	if len(parts) >= 3 {
		if ap, err := netip.ParseAddrPort(parts[2]); err == nil {
			o.failedIPs[ap.Addr()] = true
		}
	}
}

func (o *c18Oracle) observe() {
	c, k := o.c, o.k
	st, err := o.ag.A.GetGatheringState()
	if err == nil && (len(o.states) == 0 || o.states[len(o.states)-1] != st) {
		if len(o.states) > 0 {
			prev := o.states[len(o.states)-1]
			ok := (prev == ice.GatheringStateNew && st == ice.GatheringStateGathering) ||
				(prev == ice.GatheringStateGathering && st == ice.GatheringStateComplete) ||
				(prev == ice.GatheringStateNew && st == ice.GatheringStateComplete) // both steps within one quiescent interval
			if !ok {
				c.Failf("C18/gathering-state-order", "gathering state went %s -> %s within one cycle", prev, st)
			}
		}
		o.states = append(o.states, st)
	}
	// A socket bound to the wildcard address sits on every interface of the host. With an interface or IP
	// filter configured that rejects an address the host does have (every filter mode of this check does),
	// a socket the agent opened itself must therefore be bound to one accepted address.
	if k.ifaceMode != 0 || k.ipMode != 0 {
		for _, so := range o.w.Sockets() {
			if so.Host() != o.host || so.Tag == "service" || so.ID < o.sockSeen {
				continue
			}
			if so.Local.Port() == 5353 {
				continue // the mDNS responder's own multicast socket, not a candidate's
			}
			if (so.Tag == "ListenUDP" || so.Tag == "ListenPacket") && so.Local.Addr().IsUnspecified() {
				c.Failf("C18/socket-on-wildcard-despite-filter", "the agent opened %s socket #%d on %s although filters are configured that reject an address of this host (%s)", so.Tag, so.ID, so.Local, k)
			}
		}
		o.sockSeen = len(o.w.Sockets())
	}
	cs := o.ag.CandSeq()
	for ; o.candSeen < len(cs); o.candSeen++ {
		cand := cs[o.candSeen]
		if cand == nil {
			if o.sawNil {
				c.Failf("C18/second-nil-candidate", "a second nil candidate was published in one cycle")
			}
			o.sawNil = true
			continue
		}
		if o.sawNil {
			c.Failf("C18/candidate-after-nil", "candidate %s published after the end-of-gathering marker", rig.CandAddr(cand))
		}
		where := fmt.Sprintf("%s %s (%s)", cand.Type(), rig.CandAddr(cand), k)
		if cand.Type() == ice.CandidateTypeHost && !k.mdns {
			for _, prev := range o.cycleCand {
				if prev.Type() == ice.CandidateTypeHost && prev.NetworkType() == cand.NetworkType() && prev.Address() == cand.Address() && prev.TCPType() == cand.TCPType() {
					c.Failf("C18/duplicate-host-candidate", "published %s, the cycle already published host %s for that address and transport (two overlapping cycles?)", where, rig.CandAddr(prev))
				}
			}
		}
		o.cycleCand = append(o.cycleCand, cand)
		if ext, ok := cand.GetExtension("ufrag"); !ok || ext.Value != o.ufrag {
			c.Failf("C18/candidate-of-other-cycle", "candidate %s carries ufrag %q, the running cycle's is %q", where, ext.Value, o.ufrag)
		}
		// allowed candidate type / network type
		if cand.Type() != ice.CandidateTypeHost && !(cand.Type() == ice.CandidateTypeServerReflexive && k.srflx) {
			c.Failf("C18/candidate-type-not-enabled", "published %s", where)
		}
		if len(k.netTypes) > 0 {
			okNT := false
			for _, nt := range k.netTypes {
				if nt == cand.NetworkType() {
					okNT = true
				}
			}
			if !okNT {
				c.Failf("C18/network-type-not-enabled", "published %s", where)
			}
		}
		if k.mdns && cand.Type() == ice.CandidateTypeHost {
			if cand.Address() != c18MDNSName {
				c.Failf("C18/ip-exposed-in-mdns-gather-mode", "published %s in mDNS gather mode (expected the name %s)", where, c18MDNSName)
			}
			if !(k.portMin == 0 || (cand.Port() >= int(k.portMin) && cand.Port() <= int(k.portMax))) {
				c.Failf("C18/host-port-outside-range", "published %s", where)
			}
			c.Probe("mdns-name-published")
			continue
		}
		ip, perr := netip.ParseAddr(cand.Address())
		if perr != nil {
			c.Failf("C18/candidate-address-unparsable", "published %s", where)
			continue
		}
		if specialV6(ip) {
			c.Failf("C18/special-purpose-address-published", "published %s", where)
		}
		elig := k.eligible()
		isElig := func(a netip.Addr) bool {
			for _, e := range elig {
				if e == a {
					return true
				}
			}
			return false
		}
		inRange := func(p int) bool { return k.portMin == 0 || (p >= int(k.portMin) && p <= int(k.portMax)) }
		switch cand.Type() {
		case ice.CandidateTypeHost:
			if !isElig(ip) {
				c.Failf("C18/host-candidate-on-ineligible-address", "published %s; eligible addresses: %v", where, elig)
			}
			// (a TCP host candidate borrows the mux's listener: the port range does not apply to it)
			if !inRange(cand.Port()) && cand.NetworkType().IsUDP() {
				c.Failf("C18/host-port-outside-range", "published %s", where)
			}
		case ice.CandidateTypeServerReflexive:
			if ra := cand.RelatedAddress(); ra != nil {
				if !inRange(ra.Port) {
					c.Failf("C18/srflx-base-port-outside-range", "published %s with base %s:%d", where, ra.Address, ra.Port)
				}
				if b, err := netip.ParseAddr(ra.Address); err == nil && b.IsUnspecified() && (k.ifaceMode != 0 || k.ipMode != 0) {
					c.Failf("C18/srflx-base-on-wildcard-despite-filter", "published %s with base %s although filters reject an address of this host", where, ra.Address)
				}
				if b, err := netip.ParseAddr(ra.Address); err == nil && !b.IsUnspecified() && !isElig(b) {
					c.Failf("C18/srflx-base-on-ineligible-address", "published %s with base %s", where, ra.Address)
				}
			}
		}
	}
}

// endCycle: completeness of host candidates for a cycle that ran to completion.
func (o *c18Oracle) endCycle() {
	c, k := o.c, o.k
	if k.mdns {
		// candidates carry the name, not the address: completeness per address is not observable
		if st, _ := o.ag.A.GetGatheringState(); st != ice.GatheringStateComplete {
			c.Failf("C18/state-after-nil", "nil candidate published but gathering state is %s", st)
		}
		c.Probe("cycle-completed")
		return
	}
	have := map[netip.Addr]bool{}
	for _, cand := range o.cycleCand {
		if cand.Type() == ice.CandidateTypeHost && cand.NetworkType().IsUDP() {
			if ip, err := netip.ParseAddr(cand.Address()); err == nil {
				have[ip] = true
			}
		}
	}
	// "Restart ... allows a fresh cycle whose results are not mixed with the old one": when a cycle has run to
	// completion, no candidate socket opened by an earlier, cancelled cycle may still be open - it would keep
	// its port (a single-port range could never be gathered again) and nobody owns it any more
	for _, so := range o.oldSocks {
		if !so.Closed() {
			c.Failf("C18/socket-of-cancelled-cycle-still-open", "the new cycle completed, yet socket #%d on %s, obtained by the cancelled cycle after the Restart, is still open (%s)", so.ID, so.Local, k)
			return
		}
	}
	for _, so := range o.w.Sockets() {
		if so.Host() != o.host || so.ID >= o.cycleSock0 || so.Closed() || so.Tag == "service" || so.Local.Port() == 5353 {
			continue
		}
		if so.Tag == "ListenUDP" || so.Tag == "ListenPacket" {
			c.Failf("C18/socket-of-cancelled-cycle-still-open", "the cycle completed, yet socket #%d on %s opened by an earlier (cancelled) cycle is still open (%s)", so.ID, so.Local, k)
			return
		}
	}
	// a listen that failed for any reason (injected error, port taken by another socket of the agent or of
	// another process) exempts that address from completeness
	o.w.Lock()
	fl := o.host.FailedListens[o.failSeen:]
	o.w.Unlock()
	for _, ap := range fl {
		if ap.Addr().IsValid() {
			o.failedIPs[ap.Addr().Unmap().WithZone("")] = true
		}
	}
	if k.tcpMux {
		// TCP has a listener: every eligible IPv4 address yields a passive TCP host candidate on the mux port
		haveTCP := map[netip.Addr]bool{}
		for _, cand := range o.cycleCand {
			if cand.Type() == ice.CandidateTypeHost && cand.NetworkType() == ice.NetworkTypeTCP4 && cand.TCPType() == ice.TCPTypePassive {
				if ip, err := netip.ParseAddr(cand.Address()); err == nil {
					haveTCP[ip] = true
					if cand.Port() != 7002 {
						c.Failf("C18/tcp-host-candidate-port", "passive TCP host candidate %s is not on the port of the TCP mux (7002)", rig.CandAddr(cand))
					}
				}
			}
		}
		var missingTCP []string
		for _, ip := range k.eligible() {
			if ip.Is4() && !haveTCP[ip] {
				missingTCP = append(missingTCP, ip.String())
			}
		}
		sort.Strings(missingTCP)
		if len(missingTCP) > 0 {
			c.Failf("C18/missing-tcp-host-candidate", "cycle completed without a passive TCP host candidate for eligible address(es) %v although tcp4 is enabled and a TCP mux listens (%s); published: %v", missingTCP, k, candList(o.cycleCand))
		}
	}
	var missing []string
	for _, ip := range k.eligible() {
		if !k.familyOn(ip.Is6()) || have[ip] || o.failedIPs[ip] {
			continue
		}
		// a range fully taken by other processes legitimately yields nothing
		if k.portMin != 0 && o.rangeTaken(ip) {
			c.Probe("port-range-exhausted")
			continue
		}
		missing = append(missing, ip.String())
	}
	sort.Strings(missing)
	if len(missing) > 0 {
		cls := "C18/missing-host-candidate"
		if len(k.netTypes) == 0 {
			cls = "C18/missing-host-candidate/empty-network-types"
		}
		c.Failf(cls, "cycle completed without a UDP host candidate for eligible address(es) %v (%s); published: %v", missing, k, candList(o.cycleCand))
	}
	st, _ := o.ag.A.GetGatheringState()
	if st != ice.GatheringStateComplete {
		c.Failf("C18/state-after-nil", "nil candidate published but gathering state is %s", st)
	}
	c.Probe("cycle-completed")
}

func (o *c18Oracle) rangeTaken(ip netip.Addr) bool {
	for p := int(o.k.portMin); p <= int(o.k.portMax); p++ {
		s := o.w.Sockets()
		taken := false
		for _, so := range s {
			if so.Tag == "service" && so.Local == netip.AddrPortFrom(ip, uint16(p)) {
				taken = true
			}
		}
		if !taken {
			return false
		}
	}
	return true
}

func candList(cs []ice.Candidate) []string {
	var out []string
	for _, x := range cs {
		out = append(out, fmt.Sprintf("%s %s", x.Type(), rig.CandAddr(x)))
	}
	sort.Strings(out)
	return out
}
