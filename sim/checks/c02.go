package checks

import (
	"fmt"
	"net/netip"
	"sort"
	"strings"
	"time"

	"github.com/pion/ice/v4"
	"github.com/pion/stun/v3"

	"verif/sim/core"
	"verif/sim/rig"
	"verif/sim/simnet"
)

func init() {
	core.Register(&core.Spec{ID: "C02", Fn: runC02})
}

// runC02: a live two-agent session (any phase, also after Restart) is frozen at tape-chosen
// quiescent points; one forged / stale / misaddressed STUN datagram is delivered to one socket of
// one agent; everything publicly observable about that agent must be unchanged (per category).
func runC02(c *core.Ctx) {
	if c.T.Bias(1, 12, "cross-transport") {
		runC02CrossTransport(c)
		return
	}
	k := drawC01Knobs(c)
	// keep sessions lively: C02 is about injected messages, not about reachability
	if k.blockPct > 40 {
		k.blockPct = 40
	}
	opts := func() []ice.AgentOption {
		return []ice.AgentOption{
			ice.WithCheckInterval(k.checkInterval), ice.WithKeepaliveInterval(k.keepalive),
			ice.WithDisconnectedTimeout(k.disc), ice.WithFailedTimeout(k.failed),
			ice.WithMaxBindingRequests(uint16(k.maxReq)),
			ice.WithSrflxAcceptanceMinWait(0), ice.WithPrflxAcceptanceMinWait(0),
			ice.WithCandidateTypes([]ice.CandidateType{ice.CandidateTypeHost, ice.CandidateTypeServerReflexive}),
		}
	}
	cfg := rig.DuoCfg{AddrsA: c01Addrs("10.0.1", k.nA), AddrsB: c01Addrs("10.0.2", k.nB), OptsA: opts(), OptsB: opts()}
	if k.aliasA {
		cfg.AliasA = "198.51.100.1"
	}
	if k.aliasB {
		cfg.AliasB = "198.51.100.2"
	}
	cfg.NATA, cfg.NATB = k.natA, k.natB
	d, err := rig.NewDuo(c, cfg)
	if err != nil {
		c.Failf("harness/setup", "%v", err)
		return
	}
	d.S.DropW, d.S.DupW, d.S.ReorderW, d.S.AdvanceW = k.dropW, k.dupW, k.reorderW, k.advW
	for _, ag := range []*rig.AgentH{d.A, d.B} {
		if err := d.Gather(ag); err != nil {
			c.Failf("harness/gather", "%v", err)
			return
		}
	}
	inj := &c02Injector{c: c, d: d, oldCreds: map[string][][2]string{}}
	sess := &c01Session{c: c, d: d, k: k, noOracles: true}
	dataSeq := 0
	sess.hook = func(phase string) {
		if c.Failed() {
			return
		}
		// application data now and then: it populates the per-candidate cache of validated sources, which
		// forged STUN from the very same source must not be able to ride on
		if c.T.Bias(1, 10, "data?") {
			for _, ag := range []*rig.AgentH{d.A, d.B} {
				if ag.Conn != nil {
					dataSeq++
					if n, err := ag.Conn.Write([]byte(fmt.Sprintf("app-data-%04d", dataSeq))); err == nil && n > 0 {
						c.Probe("app-data-written")
					}
				}
			}
			d.S.Settle()
		}
		if c.T.Bias(1, 8, "inject?") {
			inj.injectOne()
		}
	}
	sess.generation(0)
	// keep the connected session running for a while with injections (keepalive phase)
	extra := c.T.Range(0, 40, "extra")
	for i := 0; i < extra && !c.Failed(); i++ {
		d.S.StepFair(k.checkInterval)
		sess.hook("connected")
	}
	// long phase: keepalives with some requests lost for more than 30 simulated seconds, so that the wire
	// remembers transactions that are old and were never answered ("expired" by any implementation)
	if c.T.Bias(1, 4, "longphase") && !c.Failed() {
		c.Probe("long-keepalive-phase")
		end := c.Now() + 33*time.Second
		saved := d.S.Deltas
		d.S.Deltas = []time.Duration{k.keepalive / 2}
		d.S.DropW, d.S.DupW, d.S.ReorderW, d.S.AdvanceW = 12, 0, 0, 10
		for n := 0; c.Now() < end && n < 4000 && !c.Failed(); n++ {
			d.S.StepFaulty()
			if n%7 == 0 {
				sess.hook("long")
			}
		}
		d.S.Deltas = saved
		for i := 0; i < 10 && !c.Failed(); i++ {
			d.S.StepFair(k.checkInterval)
			inj.injectOne()
		}
	}
	if c.T.Bias(1, 4, "silent-expiry") && !c.Failed() {
		inj.silentExpiry()
	}
	if !k.restart && c.T.Bias(1, 3, "onesided") && !c.Failed() {
		inj.oneSidedRestart(sess)
		return
	}
	if k.restart && !c.Failed() {
		inj.oldCreds["A"] = append(inj.oldCreds["A"], [2]string{d.A.Ufrag, d.A.Pwd})
		inj.oldCreds["B"] = append(inj.oldCreds["B"], [2]string{d.B.Ufrag, d.B.Pwd})
		sess.restart()
		for i := 0; i < extra && !c.Failed(); i++ {
			d.S.StepFair(k.checkInterval)
			sess.hook("connected")
		}
	}
}

type c02Injector struct {
	c        *core.Ctx
	d        *rig.Duo
	seq      uint32
	oldCreds map[string][][2]string // per agent: (ufrag,pwd) of ended generations
}

func hostSockIDs(w *simnet.World, h *simnet.Host) map[int]bool {
	out := map[int]bool{}
	for _, s := range w.Sockets() {
		if s.Host() == h {
			out[s.ID] = true
		}
	}
	return out
}

// outstanding transactions of `ag`: Binding requests it sent whose response was not yet delivered to it.
type txInfo struct {
	id       [stun.TransactionIDSize]byte
	dst      netip.AddrPort
	src      netip.AddrPort
	age      time.Duration
	answered bool
}

func (in *c02Injector) transactions(ag *rig.AgentH, h *simnet.Host) []txInfo {
	d := in.d
	ids := hostSockIDs(d.W, h)
	wire := append([]*rig.WireEv(nil), d.Wire...)
	sort.SliceStable(wire, func(i, j int) bool {
		if wire[i].D.SockID != wire[j].D.SockID {
			return wire[i].D.SockID < wire[j].D.SockID
		}
		return wire[i].D.Seq < wire[j].D.Seq
	})
	answered := map[[stun.TransactionIDSize]byte]bool{}
	for _, w := range wire {
		m := w.Msg()
		if m.IsSTUN && m.Class == stun.ClassSuccessResponse && d.Delivered[w.D.ID] {
			answered[m.TxID] = true
		}
	}
	var out []txInfo
	now := in.c.Now()
	for _, w := range wire {
		if !ids[w.D.SockID] || w.D.Dup {
			continue
		}
		m := w.Msg()
		if !m.IsSTUN || m.Class != stun.ClassRequest {
			continue
		}
		out = append(out, txInfo{id: m.TxID, dst: w.D.Dst, src: w.D.Src, age: now - w.At, answered: answered[m.TxID]})
	}
	return out
}

// silentExpiry: nothing reaches the agents for longer than a transaction lives (so nothing makes them tidy up
// their outstanding transactions either); then an authentic success response arrives for a request that is
// older than that: its transaction is not outstanding any more, the response changes nothing.
func (in *c02Injector) silentExpiry() {
	c, d := in.c, in.d
	target, peer, th := d.A, d.B, d.HA
	if c.T.Choose(2, "target") == 1 {
		target, peer, th = d.B, d.A, d.HB
	}
	if target.Conn == nil {
		return
	}
	for el := time.Duration(0); el < 4500*time.Millisecond; el += 100 * time.Millisecond {
		for _, dg := range d.W.InFlight() {
			d.W.Drop(dg)
		}
		d.S.Advance(100 * time.Millisecond)
	}
	for _, dg := range d.W.InFlight() {
		d.W.Drop(dg)
	}
	c.Fault("silence-longer-than-a-transaction-lives")
	locals := map[netip.AddrPort]bool{}
	for _, lc := range target.LocalCands() {
		locals[rig.CandAP(lc)] = true
	}
	var old []txInfo
	for _, t := range in.transactions(target, th) {
		if !t.answered && t.age >= 4200*time.Millisecond && t.age < 20*time.Second && locals[t.src] {
			old = append(old, t)
		}
	}
	if len(old) == 0 {
		return
	}
	t := old[len(old)-1-c.T.Choose(min(len(old), 3), "whichold")]
	pre := rig.TakeSnap(target)
	before := map[uint64]bool{}
	for _, q := range d.W.InFlight() {
		before[q.ID] = true
	}
	id, dst := t.id, t.src
	spec := rig.MsgSpec{Method: stun.MethodBinding, Class: stun.ClassSuccessResponse, TxID: &id, XorAddr: &dst, Key: peer.Pwd}
	dg := d.W.Inject(t.dst, dst, spec.Build(), "late response to an expired transaction")
	c.Fault("inject:resp/expired-tx-after-silence")
	if res, _ := d.S.Deliver(dg); res != simnet.Delivered {
		return
	}
	post := rig.TakeSnap(target)
	var problems []string
	ids := hostSockIDs(d.W, th)
	for _, q := range d.W.InFlight() {
		if !before[q.ID] && ids[q.SockID] {
			problems = append(problems, "agent emitted "+d.Tx.Describe(q))
		}
	}
	problems = append(problems, rig.Diff(pre, post, rig.DiffOpts{AllowLastRecv: map[string]bool{"udp/" + t.dst.String(): true}})...)
	if len(problems) > 0 {
		c.Failf("C02/effect/resp/expired-tx-after-silence", "an authentic success response to a request sent %v ago (a transaction lives 4 s; nothing had reached %s in between) had an effect: %v", t.age, target.Name, problems)
		return
	}
	c.Probe("late-response-to-expired-tx-ignored")
}

func (in *c02Injector) injectOne() {
	c, d := in.c, in.d
	target, peer := d.A, d.B
	th, ph := d.HA, d.HB
	if c.T.Choose(2, "target") == 1 {
		target, peer = d.B, d.A
		th, ph = d.HB, d.HA
	}
	_ = ph
	if target.Conn == nil {
		return // not started: its sockets only queue (see C01 on the start race)
	}
	locals := target.LocalCands()
	if len(locals) == 0 {
		return
	}
	dstCand := locals[c.T.Choose(len(locals), "dstcand")]
	dst := rig.CandAP(dstCand)

	pre := rig.TakeSnap(target)
	c.State("inj@" + pre.Abstract())

	// source address
	var src netip.AddrPort
	srcKind := ""
	remotes := pre.Remotes
	selRemote := ""
	if pre.Selected != "" {
		if _, r, ok := target.SelectedPair(); ok {
			selRemote = "udp/" + r.String()
		}
	}
	switch c.T.Pick([]int{3, 3, 2}, "srckind") {
	case 0:
		if selRemote != "" {
			src = netip.MustParseAddrPort(selRemote[4:])
			srcKind = "selected-remote"
			break
		}
		fallthrough
	case 1:
		if len(remotes) > 0 {
			r := remotes[c.T.Choose(len(remotes), "whichremote")]
			src = netip.MustParseAddrPort(r.Addr[4:])
			srcKind = "known-remote"
			break
		}
		fallthrough
	default:
		src = netip.AddrPortFrom(netip.MustParseAddr("192.0.2.77"), uint16(40000+c.T.Choose(3, "unkport")))
		srcKind = "unknown"
	}
	known := false
	for _, r := range remotes {
		if r.Addr == "udp/"+src.String() {
			known = true
		}
	}

	in.seq++
	spec := rig.MsgSpec{Method: stun.MethodBinding, Seq: in.seq}
	goodReqUser := target.Ufrag + ":" + peer.Ufrag
	allow := map[string]bool{}
	cat := ""
	txs := in.transactions(target, th)
	pickTx := func(pred func(t txInfo) bool) *txInfo {
		var cands []txInfo
		for _, t := range txs {
			if pred(t) {
				cands = append(cands, t)
			}
		}
		if len(cands) == 0 {
			return nil
		}
		t := cands[c.T.Choose(len(cands), "whichtx")]
		return &t
	}

	switch c.T.Pick([]int{4, 4, 2, 2, 2, 2}, "category") {
	case 0: // A: request failing authentication
		spec.Class = stun.ClassRequest
		spec.Priority = rig.U32(uint32(1<<24)*uint32(c.T.Range(1, 126, "prio")) + 255)
		spec.UseCandidate = c.T.Bias(1, 2, "uc")
		if c.T.Bias(1, 3, "nomattr") {
			spec.Nomination = rig.U32(uint32(c.T.Range(1, 1000, "nomval")))
		}
		tb := uint64(c.T.Choose(1<<20, "tb"))
		if c.T.Bias(1, 2, "rolecontrolling") {
			spec.Controlling = &tb
		} else {
			spec.Controlled = &tb
		}
		spec.Key = target.Pwd
		switch c.T.Choose(8, "reqflaw") {
		case 0:
			spec.Username = rig.Str(peer.Ufrag + ":" + target.Ufrag) // swapped
			cat = "req/username-swapped"
		case 1:
			spec.Username = rig.Str(target.Ufrag + ":someoneelse")
			cat = "req/username-other-remote"
		case 2:
			spec.Username = rig.Str(goodReqUser[:len(goodReqUser)-1])
			cat = "req/username-truncated"
		case 3:
			cat = "req/username-absent"
		case 4:
			spec.Username = rig.Str(goodReqUser)
			spec.Integrity = rig.IntWrong
			cat = "req/integrity-wrong-key"
		case 5:
			spec.Username = rig.Str(goodReqUser)
			spec.Integrity = rig.IntCorrupt
			cat = "req/integrity-corrupt"
		case 6:
			spec.Username = rig.Str(goodReqUser)
			spec.Integrity = rig.IntAbsent
			cat = "req/integrity-absent"
		case 7:
			spec.Username = rig.Str(goodReqUser)
			spec.Key = peer.Pwd // signed with the wrong side's password
			cat = "req/integrity-peer-password"
		}
		if c.T.Bias(1, 4, "nofp") {
			spec.Fingerprint = rig.FpAbsent
		}
		if c.T.Bias(1, 3, "replay-txid") {
			// the forged request reuses the transaction id (and the source address, and the local candidate) of
			// a genuine request of the peer that this agent has just verified and answered
			var recent []txInfo
			for _, t := range in.transactions(peer, ph) {
				if t.dst == dst && t.age < 2*time.Second {
					recent = append(recent, t)
				}
			}
			if len(recent) > 0 {
				t := recent[len(recent)-1-c.T.Choose(min(len(recent), 2), "whichrecent")]
				spec.TxID = &t.id
				src, srcKind = t.src, "source-of-verified-request"
				known = false
				for _, r := range remotes {
					if r.Addr == "udp/"+src.String() {
						known = true
					}
				}
				cat += "/txid-of-verified-request"
				c.Probe("forged-request-with-txid-of-verified-request")
			}
		}
	case 1: // B: success responses
		spec.Class = stun.ClassSuccessResponse
		spec.XorAddr = &dst
		spec.Key = peer.Pwd
		switch c.T.Choose(6, "respflaw") {
		case 0: // outstanding transaction, wrong integrity
			if t := pickTx(func(t txInfo) bool { return !t.answered && t.age < time.Second && t.src == dst }); t != nil {
				spec.TxID = &t.id
				src = t.dst
				srcKind = "request-destination"
				cat = "resp/outstanding-integrity-wrong"
				c.Probe("forged-response-to-outstanding-tx")
			} else {
				cat = "resp/fresh-integrity-wrong"
			}
			spec.Integrity = rig.IntWrong
			if c.T.Bias(1, 2, "corrupt") {
				spec.Integrity = rig.IntCorrupt
			}
		case 1: // right integrity, never-issued transaction
			cat = "resp/unknown-tx"
			if known {
				allow["udp/"+src.String()] = true
			}
		case 2: // right integrity, outstanding transaction, but from another address than the request went to
			if t := pickTx(func(t txInfo) bool { return !t.answered && t.age < time.Second && t.dst != src && t.src == dst }); t != nil {
				spec.TxID = &t.id
				cat = "resp/outstanding-wrong-source"
				c.Probe("authentic-response-from-wrong-source")
			} else {
				cat = "resp/unknown-tx"
			}
			if known {
				allow["udp/"+src.String()] = true
			}
		case 3: // already answered transaction replayed from the right source
			if t := pickTx(func(t txInfo) bool { return t.answered && t.src == dst }); t != nil {
				spec.TxID = &t.id
				src = t.dst
				srcKind = "request-destination"
				cat = "resp/answered-tx-replayed"
				c.Probe("replayed-answered-response")
				allow["udp/"+src.String()] = true
			} else {
				cat = "resp/unknown-tx"
				if known {
					allow["udp/"+src.String()] = true
				}
			}
		case 4: // expired transaction (>= 30 s old, never answered), right source, right integrity
			if t := pickTx(func(t txInfo) bool { return !t.answered && t.age >= 30*time.Second && t.src == dst }); t != nil {
				spec.TxID = &t.id
				src = t.dst
				srcKind = "request-destination"
				cat = "resp/expired-tx"
				c.Probe("response-to-expired-tx")
				allow["udp/"+src.String()] = true
			} else {
				cat = "resp/unknown-tx"
				if known {
					allow["udp/"+src.String()] = true
				}
			}
		case 5: // outstanding transaction, integrity absent
			if t := pickTx(func(t txInfo) bool { return !t.answered && t.age < time.Second && t.src == dst }); t != nil {
				spec.TxID = &t.id
				src = t.dst
				srcKind = "request-destination"
			}
			spec.Integrity = rig.IntAbsent
			cat = "resp/integrity-absent"
		}
	case 2: // C: error responses
		spec.Class = stun.ClassErrorResponse
		spec.ErrorCode = []int{400, 401, 487, 500}[c.T.Choose(4, "errcode")]
		spec.Key = peer.Pwd
		if t := pickTx(func(t txInfo) bool { return !t.answered && t.age < time.Second && t.src == dst }); t != nil && c.T.Bias(2, 3, "useoutstanding") {
			spec.TxID = &t.id
			src = t.dst
			srcKind = "request-destination"
			c.Probe("error-response-to-outstanding-tx")
		}
		cat = fmt.Sprintf("err/%d", spec.ErrorCode)
	case 3: // C: non-Binding methods, any class, authentic
		spec.Method = []stun.Method{stun.MethodAllocate, stun.MethodRefresh, stun.MethodSend, stun.MethodData, stun.MethodChannelBind}[c.T.Choose(5, "method")]
		spec.Class = []stun.MessageClass{stun.ClassRequest, stun.ClassSuccessResponse, stun.ClassIndication}[c.T.Choose(3, "class")]
		spec.Username = rig.Str(goodReqUser)
		spec.Key = target.Pwd
		if spec.Class == stun.ClassSuccessResponse {
			spec.Key = peer.Pwd
			spec.Username = nil
			if t := pickTx(func(t txInfo) bool { return !t.answered && t.age < time.Second && t.src == dst }); t != nil {
				spec.TxID = &t.id
				src = t.dst
			}
		}
		spec.UseCandidate = true
		cat = "nonbinding/" + spec.Method.String() + "/" + spec.Class.String()
	case 4: // D: Binding indication (no integrity needed)
		spec.Class = stun.ClassIndication
		spec.Integrity = rig.IntAbsent
		if c.T.Bias(1, 2, "signed") {
			spec.Integrity = rig.IntRight
			spec.Key = target.Pwd
			spec.Username = rig.Str(goodReqUser)
		}
		spec.UseCandidate = c.T.Bias(1, 2, "uc")
		cat = "indication"
		if known {
			allow["udp/"+src.String()] = true
		}
	case 5: // E: stale generation (valid under credentials ended by Restart)
		olds := in.oldCreds[target.Name]
		oldp := in.oldCreds[peer.Name]
		if len(olds) == 0 {
			// no ended generation yet: fall back to an unauthenticated request
			spec.Class = stun.ClassRequest
			spec.Username = rig.Str(goodReqUser)
			spec.Integrity = rig.IntWrong
			spec.Key = target.Pwd
			cat = "req/integrity-wrong-key"
			break
		}
		ot, op := olds[len(olds)-1], oldp[len(oldp)-1]
		if c.T.Bias(1, 2, "stalekind") {
			spec.Class = stun.ClassRequest
			spec.Username = rig.Str(ot[0] + ":" + op[0])
			spec.Key = ot[1]
			spec.UseCandidate = true
			spec.Priority = rig.U32(2130706431)
			tb := uint64(7)
			spec.Controlling = &tb
			cat = "stale/request-old-generation"
		} else {
			spec.Class = stun.ClassSuccessResponse
			spec.XorAddr = &dst
			spec.Key = op[1]
			// a transaction of the old generation, if the wire still remembers one
			if t := pickTx(func(t txInfo) bool { return !t.answered }); t != nil {
				spec.TxID = &t.id
				src = t.dst
			}
			cat = "stale/response-old-generation"
		}
		c.Probe("stale-generation-message")
	}

	payload := spec.Build()
	if !stun.IsMessage(payload) {
		c.Failf("harness/forge", "forged payload is not STUN (%s)", cat)
		return
	}
	before := map[uint64]bool{}
	for _, dg := range d.W.InFlight() {
		before[dg.ID] = true
	}
	// outstanding transactions: a message that fails authentication (or is an error response, a non-Binding
	// method, an indication) must not use one up - the genuine answer would then be discarded as unknown
	txBefore, txErr := ice.VerifPendingTransactions(target.A)
	dg := d.W.Inject(src, dst, payload, "forged "+cat)
	c.Fault("inject:" + cat)
	c.Logf("inject %s src=%s(%s) dst=%s", cat, src, srcKind, dst)
	if res, _ := d.S.Deliver(dg); res != simnet.Delivered {
		c.Probe("inject-not-delivered")
		return
	}
	post := rig.TakeSnap(target)

	var problems []string
	ids := hostSockIDs(d.W, th)
	for _, q := range d.W.InFlight() {
		if !before[q.ID] && ids[q.SockID] {
			problems = append(problems, "agent emitted "+d.Tx.Describe(q))
		}
	}
	problems = append(problems, rig.Diff(pre, post, rig.DiffOpts{AllowLastRecv: allow})...)
	if strings.Contains(cat, "integrity-") || strings.HasPrefix(cat, "err/") || strings.HasPrefix(cat, "nonbinding/") || cat == "indication" {
		if txAfter, err := ice.VerifPendingTransactions(target.A); err == nil && txErr == nil && txAfter != txBefore {
			problems = append(problems, fmt.Sprintf("outstanding Binding transactions %d -> %d", txBefore, txAfter))
		}
	}
	if len(problems) > 0 {
		c.Failf("C02/effect/"+catClass(cat), "forged %s (src=%s %s, dst=%s %s) had an observable effect on %s: %v",
			cat, src, srcKind, dst, dstCand.Type(), target.Name, problems)
	}
}

// catClass keeps violation classes stable (drops variable suffixes).
func catClass(cat string) string {
	for i := 0; i < len(cat); i++ {
		if cat[i] == '/' {
			for j := i + 1; j < len(cat); j++ {
				if cat[j] == '/' {
					return cat[:j]
				}
			}
			return cat
		}
	}
	return cat
}

// oneSidedRestart: only one agent restarts (new local credentials, fresh sockets); its peer keeps
// credentials and addresses and is signalled again. Responses to the restarted agent's pre-Restart
// requests are then valid under the (unchanged) remote password and come from a (again) known remote:
// only the transaction id tells them apart, and it belongs to the ended generation.
func (in *c02Injector) oneSidedRestart(sess *c01Session) {
	c, d := in.c, in.d
	target, peer, th := d.A, d.B, d.HA
	if c.T.Choose(2, "restartwho") == 1 {
		target, peer, th = d.B, d.A, d.HB
	}
	if target.Conn == nil || peer.Conn == nil {
		return
	}
	// make sure requests of the target are in flight / unanswered and young
	d.S.Advance(sess.k.checkInterval)
	d.S.Advance(sess.k.keepalive)
	old := in.transactions(target, th)
	in.oldCreds[target.Name] = append(in.oldCreds[target.Name], [2]string{target.Ufrag, target.Pwd})
	in.oldCreds[peer.Name] = append(in.oldCreds[peer.Name], [2]string{peer.Ufrag, peer.Pwd})
	// drop whatever is in flight: the answers of the old generation are forged below, under our control
	for _, dg := range d.W.InFlight() {
		d.W.Drop(dg)
	}
	uf, pw := rig.Creds(target.Name, 7)
	if err := target.A.Restart(uf, pw); err != nil {
		c.Failf("harness/restart", "%v", err)
		return
	}
	target.Ufrag, target.Pwd = uf, pw
	d.S.Settle()
	c.Probe("one-sided-restart")
	if err := d.Gather(target); err != nil {
		c.Failf("harness/gather", "%v", err)
		return
	}
	_ = target.A.SetRemoteCredentials(peer.Ufrag, peer.Pwd)
	for _, cand := range peer.LocalCands() {
		_ = d.Signal(peer, target, cand)
	}
	d.S.Settle()
	locals := target.LocalCands()
	if len(locals) == 0 {
		return
	}
	for _, t := range old {
		if t.answered || t.age > 2*time.Second {
			continue
		}
		// the same local IP as the request's source, on the new generation's socket
		var dst netip.AddrPort
		for _, lc := range locals {
			if rig.CandAP(lc).Addr() == t.src.Addr() {
				dst = rig.CandAP(lc)
			}
		}
		if !dst.IsValid() {
			continue
		}
		pre := rig.TakeSnap(target)
		before := map[uint64]bool{}
		for _, q := range d.W.InFlight() {
			before[q.ID] = true
		}
		id := t.id
		spec := rig.MsgSpec{Method: stun.MethodBinding, Class: stun.ClassSuccessResponse, TxID: &id, XorAddr: &dst, Key: peer.Pwd}
		dg := d.W.Inject(t.dst, dst, spec.Build(), "forged stale/response-to-pre-restart-tx")
		c.Fault("inject:stale/response-to-pre-restart-tx")
		c.Logf("inject response to pre-restart tx src=%s dst=%s", t.dst, dst)
		if res, _ := d.S.Deliver(dg); res != simnet.Delivered {
			continue
		}
		post := rig.TakeSnap(target)
		var problems []string
		ids := hostSockIDs(d.W, th)
		for _, q := range d.W.InFlight() {
			if !before[q.ID] && ids[q.SockID] {
				problems = append(problems, "agent emitted "+d.Tx.Describe(q))
			}
		}
		problems = append(problems, rig.Diff(pre, post, rig.DiffOpts{AllowLastRecv: map[string]bool{"udp/" + t.dst.String(): true}})...)
		if len(problems) > 0 {
			c.Failf("C02/effect/stale/response-to-pre-restart-tx", "an authentic response to a request of the generation ended by Restart (from %s to %s) had an effect on %s: %v",
				t.dst, dst, target.Name, problems)
			return
		}
	}
}
