package checks

import (
	"bytes"
	"fmt"
	"net"
	"sort"
	"strings"
	"sync"
	"testing/synctest"
	"time"

	"github.com/pion/ice/v4"
	"github.com/pion/stun/v3"

	"verif/sim/core"
	"verif/sim/rig"
	"verif/sim/simstream"
	"verif/sim/tape"
)

func init() {
	core.Register(&core.Spec{ID: "C15", Fn: runC15, HangIsViolation: true})
}

// Client kinds (what the first frame looks like).
const (
	c15Valid       = iota // STUN Binding with USERNAME "<ufrag>:<anything>"
	c15Garbage            // a frame that is not STUN
	c15NotBinding         // STUN, USERNAME present, method is not Binding
	c15NoUsername         // STUN Binding without USERNAME
	c15Oversize           // first frame larger than 512 bytes
	c15Empty              // zero-length first frame
	c15EarlyCloser        // closes before its (valid) first frame is complete
	c15Kinds
)

var c15KindName = []string{"valid", "garbage", "not-binding", "no-username", "oversize", "empty", "early-close"}

// Verdicts of the model about a client's first frame.
const (
	c15Pending = iota
	c15Good
	c15Bad
)

type c15Ev struct {
	n    int
	addr string
	err  error
	data []byte
}

// c15PC models one incarnation of "the packet connection of a ufrag" (per address family / local IP).
type c15PC struct {
	id          int
	key         string
	ufrag       string
	plane       int
	provisional bool
	expiresAt   time.Duration
	closed      bool // by the model: removed, expired, last handle closed, mux closed
	why         string
	reader      *c15Handle // the handle whose reader goroutine drains this conn (at most one)
	events      []c15Ev    // appended by the reader goroutine (under world.mu)
	seen        int
}

type c15Handle struct {
	id     int
	pc     *c15PC
	conn   net.PacketConn
	closed bool // closed by the harness
}

type c15Client struct {
	id     int
	kind   int
	plane  int
	addr   *net.TCPAddr
	ufrag  string
	conn   *simstream.Conn // client end
	srv    *simstream.Conn // mux end
	dialAt time.Duration
	dl     time.Duration // dialAt + FirstStunBindTimeout

	pendingBytes []byte // bytes of the first frame not yet written
	first        []byte // the first message (valid kinds)
	verdict      int
	badWhy       string
	closeAfter   int // early closer: bytes to write before closing

	attached   *c15PC // model: attached to this live packet conn
	home       *c15PC // the packet conn it was attached to at any time
	sent       [][]byte
	delivered  int
	replies    [][]byte
	selfClosed bool
	aborted    bool
	mustClose  string // non-empty: the statement requires the mux to have closed this stream by now (class suffix)
	mustWhy    string

	rx    []byte // under world.mu
	rxErr error  // under world.mu
	// stalled: the client has stopped reading (its receive window is closed): whatever the mux still writes to
	// it piles up in the mux's write buffer and then blocks the writer; replies to it are not judged any more
	stalled bool
	gate    chan struct{}
}

type c15World struct {
	wb           int
	c            *core.Ctx
	mu           sync.Mutex
	mux          *ice.TCPMuxDefault
	l            *simstream.Listener
	first, alive time.Duration
	lips         [2]net.IP
	clients      []*c15Client
	live         map[string]*c15PC
	pcs          []*c15PC
	handles      []*c15Handle
	uniq         int

	closing      bool
	closeAt      time.Duration
	closeBound   time.Duration
	closeDone    bool // under mu
	closePanic   string
	closeChecked bool
}

var c15Ufrags = []string{"ufa", "ufb", "ufc"}

func runC15(c *core.Ctx) {
	t := c.T
	if t.Bias(1, 5, "attach-race") {
		runC15Race(c)
		return
	}
	w := &c15World{c: c, live: map[string]*c15PC{}}
	cfg := t.Pick([]int{5, 2, 2}, "cfg")
	var pFirst, pAlive time.Duration
	switch cfg {
	case 0:
		pFirst, pAlive = 2*time.Second, 3*time.Second
	case 1: // defaults (30 s / 30 s)
		pFirst, pAlive = 0, 0
	default:
		pFirst, pAlive = 3*time.Second, 500*time.Millisecond
	}
	w.first, w.alive = pFirst, pAlive
	if w.first == 0 {
		w.first = 30 * time.Second
	}
	if w.alive == 0 {
		w.alive = 30 * time.Second
	}
	rb := []int{8, 0, 1, 64}[t.Pick([]int{4, 2, 2, 1}, "readbuf")]
	wb := []int{0, 4 << 20}[t.Pick([]int{3, 1}, "writebuf")]
	w.wb = wb
	c.Knob("first", w.first.String())
	c.Knob("alive", w.alive.String())
	c.Knob("readbuf", rb)
	c.Knob("writebuf", wb)
	w.lips = [2]net.IP{net.IPv4(10, 0, 0, 1), net.ParseIP("fd00::1")}
	w.l = simstream.Listen(&net.TCPAddr{IP: w.lips[0], Port: 4000})
	w.mux = ice.NewTCPMuxDefault(ice.TCPMuxParams{Listener: w.l, Logger: rig.Quiet().NewLogger("c15"),
		ReadBufferSize: rb, WriteBufferSize: wb, FirstStunBindTimeout: pFirst, AliveDurationForConnFromStun: pAlive})
	// cleanup (LIFO): release the harness's own goroutines, then make sure Close was called and has returned
	c.Defer(func() {
		if !w.closing {
			w.startClose()
		}
		for i := 0; i < 8 && !w.closeReturned(); i++ {
			time.Sleep(w.first + w.alive)
			synctest.Wait()
		}
	})
	c.Defer(func() {
		for _, h := range w.handles {
			if !h.closed {
				h.closed = true
				_ = h.conn.Close()
			}
		}
		for _, cl := range w.clients {
			_ = cl.conn.Close()
		}
		synctest.Wait()
	})
	synctest.Wait()

	steps := t.Range(8, 70, "steps")
	for i := 0; i < steps && !c.Failed(); i++ {
		c.Step++
		w.action()
		synctest.Wait()
		if c.Failed() {
			return
		}
		w.evaluate()
	}
	if c.Failed() {
		return
	}
	// Final phase: optionally let every timer of the model run out first, then Close.
	if !w.closing && t.Bias(1, 2, "drain-before-close") {
		c.Step++
		w.advanceTo(w.horizon() + time.Millisecond)
		w.evaluate()
		if c.Failed() {
			return
		}
	}
	if !w.closing {
		c.Step++
		w.startClose()
		synctest.Wait()
		w.evaluate()
	}
	for !c.Failed() && !w.closeChecked {
		c.Step++
		next := w.nextDeadline()
		if next <= c.Now() {
			next = c.Now() + time.Second
		}
		w.advanceTo(next)
		w.evaluate()
	}
}

func (w *c15World) closeReturned() bool {
	w.mu.Lock()
	defer w.mu.Unlock()
	return w.closeDone
}

// horizon is the latest instant at which a timer of the model fires.
func (w *c15World) horizon() time.Duration {
	h := w.c.Now()
	for _, cl := range w.clients {
		if cl.verdict == c15Pending && cl.dl+w.alive > h {
			h = cl.dl + w.alive // it may still turn into a provisional conn just before its deadline
		}
		if cl.dl > h {
			h = cl.dl
		}
	}
	for _, pc := range w.pcs {
		if !pc.closed && pc.provisional && pc.expiresAt > h {
			h = pc.expiresAt
		}
	}
	return h
}

// nextDeadline is the earliest model timer strictly in the future (or now when there is none).
func (w *c15World) nextDeadline() time.Duration {
	now := w.c.Now()
	best := time.Duration(-1)
	consider := func(d time.Duration) {
		if d > now && (best < 0 || d < best) {
			best = d
		}
	}
	for _, cl := range w.clients {
		if !cl.srv.Closed() {
			consider(cl.dl)
		}
	}
	for _, pc := range w.pcs {
		if !pc.closed && pc.provisional {
			consider(pc.expiresAt)
		}
	}
	if best < 0 {
		return now
	}
	return best
}

func (w *c15World) advanceTo(at time.Duration) {
	d := at - w.c.Now()
	if d > 0 {
		w.c.Logf("advance %v", d)
		time.Sleep(d)
	}
	synctest.Wait()
}

func (w *c15World) startClose() {
	w.closing = true
	w.closeAt = w.c.Now()
	// Close may have to wait for connections whose first frame is outstanding (they are closed at
	// their deadline) and for a provisional conn created from such a frame (it expires later still).
	w.closeBound = w.horizon() + w.alive + time.Second
	w.c.Logf("mux.Close()")
	w.c.Fault("mux-close")
	for _, pc := range w.pcs {
		w.closePC(pc, "the mux is closing", "")
	}
	go func() {
		defer func() {
			r := recover()
			w.mu.Lock()
			if r != nil {
				w.closePanic = fmt.Sprint(r)
			}
			w.closeDone = true
			w.mu.Unlock()
		}()
		_ = w.mux.Close()
	}()
}

func (w *c15World) newPC(ufrag string, plane int, provisional bool) *c15PC {
	pc := &c15PC{id: len(w.pcs), key: fmt.Sprintf("%s/%d", ufrag, plane), ufrag: ufrag, plane: plane, provisional: provisional}
	if provisional {
		pc.expiresAt = w.c.Now() + w.alive
	}
	w.pcs = append(w.pcs, pc)
	w.live[pc.key] = pc
	return pc
}

func (w *c15World) closePC(pc *c15PC, why string, mustClose string) {
	if pc.closed {
		return
	}
	pc.closed, pc.why = true, why
	if w.live[pc.key] == pc {
		delete(w.live, pc.key)
	}
	for _, cl := range w.clients {
		if cl.attached == pc {
			cl.attached = nil
			if mustClose != "" && cl.mustClose == "" {
				cl.mustClose, cl.mustWhy = mustClose, why
			}
		}
	}
}

func (w *c15World) startReader(h *c15Handle) {
	pc := h.pc
	pc.reader = h
	go func() {
		for i := 0; i < 100000; i++ {
			buf := make([]byte, 2048)
			n, addr, err := h.conn.ReadFrom(buf)
			ev := c15Ev{n: n, err: err}
			if addr != nil {
				ev.addr = addr.String()
			}
			if err == nil && n >= 0 && n <= len(buf) {
				ev.data = buf[:n]
			}
			w.mu.Lock()
			pc.events = append(pc.events, ev)
			w.mu.Unlock()
			if err != nil && addr == nil {
				return
			}
		}
	}()
}

func (w *c15World) openHandles(pc *c15PC) []*c15Handle {
	var out []*c15Handle
	for _, h := range w.handles {
		if !h.closed && (pc == nil || h.pc == pc) {
			out = append(out, h)
		}
	}
	return out
}

func (w *c15World) payload(tag string, n int) []byte {
	w.uniq++
	head := fmt.Sprintf("%s#%d|", tag, w.uniq)
	b := tsPayload(uint64(w.uniq), w.uniq, max(n, len(head)))
	copy(b, head)
	return b
}

// dial creates a scripted client.
func (w *c15World) dial() {
	t, c := w.c.T, w.c
	if len(w.clients) >= 10 {
		return
	}
	id := len(w.clients)
	cl := &c15Client{id: id}
	cl.kind = t.Pick([]int{8, 1, 1, 1, 1, 1, 1}, "kind")
	if t.Bias(1, 6, "v6") {
		cl.plane = 1
	}
	if cl.plane == 0 {
		cl.addr = &net.TCPAddr{IP: net.IPv4(10, 0, 1, byte(10+id)), Port: 5000 + id}
	} else {
		cl.addr = &net.TCPAddr{IP: net.ParseIP(fmt.Sprintf("fd00::1:%d", 10+id)), Port: 5000 + id}
	}
	cl.ufrag = c15Ufrags[t.Pick([]int{3, 2, 1}, "ufrag")]
	peer := []string{"peer", "ufb", "ufa:x", ""}[t.Pick([]int{3, 2, 1, 1}, "peer")]
	uname := cl.ufrag + ":" + peer
	var frame []byte
	switch cl.kind {
	case c15Valid, c15EarlyCloser:
		class := []stun.MessageClass{stun.ClassRequest, stun.ClassIndication, stun.ClassSuccessResponse}[t.Pick([]int{6, 1, 1}, "class")]
		pad := 0
		switch t.Pick([]int{5, 2, 1}, "pad") {
		case 1:
			pad = t.Range(1, 300, "padn")
		case 2: // exactly 512 bytes: the largest first frame the mux accepts
			base := len(tsBinding(stun.MethodBinding, class, uint32(id), &uname, 0))
			pad = 512 - base - 4
			pad -= pad % 4
			if base+4+pad == 512 {
				c.Probe("first-frame-at-512-limit")
			}
		}
		cl.first = tsBinding(stun.MethodBinding, class, uint32(id), &uname, pad)
		if len(cl.first) > 512 {
			c.Failf("harness/first-frame", "generated first frame has %d bytes", len(cl.first))
			return
		}
		frame = tsEnc(cl.first)
		if cl.kind == c15EarlyCloser {
			cl.closeAfter = t.Range(0, len(frame)-1, "closeafter")
		}
	case c15Garbage:
		g := t.Bytes(t.Range(1, 120, "glen"), "g")
		g[0] = 0xff // never a STUN header
		frame = tsEnc(g)
	case c15NotBinding:
		frame = tsEnc(tsBinding(stun.MethodAllocate, stun.ClassRequest, uint32(id), &uname, 0))
	case c15NoUsername:
		frame = tsEnc(tsBinding(stun.MethodBinding, stun.ClassRequest, uint32(id), nil, t.Choose(2, "nupad")*16))
	case c15Oversize:
		decl := t.Range(513, 1500, "decl")
		have := []int{decl, 0, 511}[t.Choose(3, "have")]
		// a well-formed Binding request padded beyond the limit, or as much of it as the client sends
		m := tsBinding(stun.MethodBinding, stun.ClassRequest, uint32(id), &uname, decl)
		frame = append([]byte{byte(decl >> 8), byte(decl)}, m[:min(have, len(m))]...)
	case c15Empty:
		frame = []byte{0, 0}
	}
	cl.pendingBytes = frame
	// the accepted connection reports its local IPv4 address in the 4-byte or in the 16-byte form (a dual-stack
	// listener reports the latter); both name the same address
	local := &net.TCPAddr{IP: c15IPForm(t, w.lips[cl.plane]), Port: 4000}
	conn, err := w.l.Dial(cl.addr, simstream.DialOpts{Local: local, ServerChunker: simstream.Seeded(uint64(t.Choose(1<<20, "chunkseed")))})
	if err != nil {
		if !w.closing {
			c.Failf("harness/dial", "%v", err)
		}
		c.Logf("dial refused (listener closed)")
		c.Probe("dial-after-close-refused")
		return
	}
	cl.conn, cl.srv = conn, conn.Peer()
	cl.dialAt = c.Now()
	cl.dl = cl.dialAt + w.first
	w.clients = append(w.clients, cl)
	c.Logf("dial client %d kind=%s plane=%d ufrag=%s peer=%q frame=%d", id, c15KindName[cl.kind], cl.plane, cl.ufrag, peer, len(frame))
	c.State("kind " + c15KindName[cl.kind])
	go func() {
		buf := make([]byte, 4096)
		for {
			w.mu.Lock()
			g := cl.gate
			w.mu.Unlock()
			if g != nil {
				<-g
			}
			n, err := conn.Read(buf)
			w.mu.Lock()
			cl.rx = append(cl.rx, buf[:n]...)
			if err != nil {
				cl.rxErr = err
			}
			w.mu.Unlock()
			if err != nil {
				return
			}
		}
	}()
	synctest.Wait()
	// most clients send (part of) their first frame right away
	if t.Pick([]int{3, 1}, "sendnow") == 0 {
		w.clientWrite(cl)
	}
}

// clientWrite lets a client write the next piece of its first frame, or further packets once attached.
func (w *c15World) clientWrite(cl *c15Client) {
	t, c := w.c.T, w.c
	if cl.selfClosed {
		return
	}
	if len(cl.pendingBytes) > 0 {
		n := len(cl.pendingBytes)
		switch t.Pick([]int{8, 1, 1, 2}, "piece") {
		case 1:
			n = 1
			c.Fault("slow-first-frame")
		case 2:
			n = min(n, 2)
			c.Fault("slow-first-frame")
		case 3:
			n = t.Range(1, n, "piece.n")
			c.Fault("slow-first-frame")
		}
		if cl.kind == c15EarlyCloser {
			written := len(tsEnc(cl.first)) - len(cl.pendingBytes)
			n = min(n, cl.closeAfter-written)
		}
		var piped [][]byte
		if n > 0 {
			out := append([]byte(nil), cl.pendingBytes[:n]...)
			if n == len(cl.pendingBytes) && cl.kind == c15Valid && t.Bias(1, 4, "pipelined") {
				// the client does not wait for an answer: more packets follow the first frame in the same
				// write, so the mux finds them in the very chunk that completes the first frame
				for j, k := 0, t.Range(1, 3, "pipelined.k"); j < k; j++ {
					p := w.payload(fmt.Sprintf("c%d", cl.id), []int{24, 1, 300, 1200}[t.Choose(4, "pipelined.len")])
					piped = append(piped, p)
					out = append(out, tsEnc(p)...)
				}
				if t.Bias(1, 2, "pipelined.partial") {
					// ... the last one only in part
					cutAt := len(out) - t.Range(1, len(tsEnc(piped[len(piped)-1]))-1, "pipelined.cut")
					rest := out[cutAt:]
					out = out[:cutAt]
					defer func() { _, _ = cl.conn.Write(rest); synctest.Wait() }()
				}
				c.Fault("frames-pipelined-behind-first-frame")
			}
			_, _ = cl.conn.Write(out)
			cl.pendingBytes = cl.pendingBytes[n:]
		}
		c.Logf("client %d writes %d byte(s) of its first frame, %d left (+%d pipelined packets)", cl.id, n, len(cl.pendingBytes), len(piped))
		synctest.Wait()
		if len(piped) > 0 {
			defer func() {
				if cl.verdict == c15Good {
					cl.sent = append(cl.sent, piped...)
				}
			}()
		}
		if cl.kind == c15EarlyCloser && len(tsEnc(cl.first))-len(cl.pendingBytes) >= cl.closeAfter {
			w.clientClose(cl, false)
			return
		}
		w.judge(cl)
		return
	}
	if cl.verdict != c15Good {
		// an ill-behaved client keeps talking into a stream that is (or will be) closed
		_, _ = cl.conn.Write(tsEnc(w.payload(fmt.Sprintf("junk%d", cl.id), 20)))
		return
	}
	k := t.Range(1, 3, "k")
	var wire []byte
	var pkts [][]byte
	for j := 0; j < k; j++ {
		p := w.payload(fmt.Sprintf("c%d", cl.id), []int{24, 0, 1, 300, 1200}[t.Pick([]int{4, 1, 1, 2, 1}, "plen")])
		if t.Bias(1, 8, "emptypkt") {
			p = nil // an empty packet is a packet too
		}
		pkts = append(pkts, p)
		wire = append(wire, tsEnc(p)...)
	}
	cut := len(wire)
	if t.Bias(1, 3, "split") {
		cut = t.Range(0, len(wire), "split.at")
		c.Fault("segmented-write")
	}
	_, _ = cl.conn.Write(wire[:cut])
	synctest.Wait()
	_, _ = cl.conn.Write(wire[cut:])
	cl.sent = append(cl.sent, pkts...)
	c.Logf("client %d sends %d packet(s), %d bytes", cl.id, k, len(wire))
}

// judge applies the statement to a client whose first frame just made progress.
func (w *c15World) judge(cl *c15Client) {
	c := w.c
	if cl.verdict != c15Pending {
		return
	}
	now := c.Now()
	if now >= cl.dl {
		w.bad(cl, "late", "first frame not complete within FirstStunBindTimeout")
		return
	}
	if len(cl.pendingBytes) > 0 {
		return
	}
	if cl.kind == c15Oversize {
		w.bad(cl, "oversize", "first frame larger than 512 bytes")
		return
	}
	if cl.kind != c15Valid {
		w.bad(cl, c15KindName[cl.kind], "first frame is not a STUN Binding message with USERNAME")
		return
	}
	cl.verdict = c15Good
	key := fmt.Sprintf("%s/%d", cl.ufrag, cl.plane)
	pc := w.live[key]
	if pc == nil {
		pc = w.newPC(cl.ufrag, cl.plane, true)
		c.Fault("unknown-ufrag")
		c.Logf("client %d: unknown ufrag %s -> provisional conn %d until %v", cl.id, cl.ufrag, pc.id, pc.expiresAt)
	} else {
		c.Logf("client %d attaches to conn %d of %s", cl.id, pc.id, cl.ufrag)
		n := 0
		for _, o := range w.clients {
			if o.attached == pc {
				n++
			}
		}
		if n > 0 {
			c.Probe("several-clients-on-one-ufrag")
		}
	}
	cl.attached, cl.home = pc, pc
	cl.sent = append(cl.sent, cl.first)
	if w.closing {
		c.Probe("first-frame-completed-while-closing")
	}
}

func (w *c15World) bad(cl *c15Client, class, why string) {
	if cl.verdict != c15Pending {
		return
	}
	cl.verdict, cl.badWhy = c15Bad, class
	w.c.Fault("bad-client-" + class)
	w.c.Logf("client %d is ill-behaved: %s", cl.id, why)
}

func (w *c15World) clientClose(cl *c15Client, abort bool) {
	if cl.selfClosed {
		return
	}
	cl.selfClosed = true
	if abort {
		cl.aborted = true
		cl.conn.Abort()
		w.c.Fault("client-reset")
	} else {
		_ = cl.conn.Close()
		w.c.Fault("client-close")
	}
	w.c.Logf("client %d closes (abort=%v) verdict=%d", cl.id, abort, cl.verdict)
	if cl.verdict == c15Pending {
		w.bad(cl, "early-close", "closed before its first frame was complete")
	}
	synctest.Wait()
}

func (w *c15World) action() {
	t, c := w.c.T, w.c
	act := t.Pick([]int{4, 8, 3, 1, 1, 4, 4, 1, 1}, "act")
	if act == 0 && w.closing && !t.Bias(1, 4, "dial-closed") {
		act = 6 // the listener is closed: let time pass instead
	}
	switch act {
	case 0:
		w.dial()
	case 1: // a client writes
		var open []*c15Client
		for _, cl := range w.clients {
			if !cl.selfClosed && !cl.srv.Closed() {
				open = append(open, cl)
			}
		}
		if len(open) == 0 {
			w.dial()
			return
		}
		if t.Bias(1, 8, "anyclient") {
			open = w.clients
		}
		w.clientWrite(open[t.Choose(len(open), "who")])
	case 2: // GetConnByUfrag
		uf := c15Ufrags[t.Pick([]int{3, 2, 1}, "ufrag")]
		plane := 0
		if t.Bias(1, 6, "v6") {
			plane = 1
		}
		conn, err := w.mux.GetConnByUfrag(uf, plane == 1, c15IPForm(t, w.lips[plane]))
		if w.closing && err != nil {
			c.Logf("GetConnByUfrag(%s) refused: the mux is closed", uf)
			c.Probe("getconn-after-close-refused")
			return
		}
		if err != nil {
			c.Failf("C15/getconn-failed", "GetConnByUfrag(%s) on an open mux: %v", uf, err)
			return
		}
		key := fmt.Sprintf("%s/%d", uf, plane)
		pc := w.live[key]
		if pc == nil {
			pc = w.newPC(uf, plane, false)
		} else if pc.provisional {
			pc.provisional = false
			c.Probe("provisional-conn-adopted")
		}
		h := &c15Handle{id: len(w.handles), pc: pc, conn: conn}
		w.handles = append(w.handles, h)
		c.Logf("GetConnByUfrag(%s,plane %d) -> handle %d on conn %d", uf, plane, h.id, pc.id)
		if pc.reader == nil && t.Pick([]int{4, 1}, "readnow") == 0 {
			w.startReader(h)
		}
	case 3: // start reading on a conn that has a handle but no reader yet
		for _, h := range w.openHandles(nil) {
			if h.pc.reader == nil {
				c.Logf("start reader on handle %d (conn %d)", h.id, h.pc.id)
				w.startReader(h)
				c.Fault("late-reader")
				break
			}
		}
	case 4: // close a handle
		hs := w.openHandles(nil)
		if len(hs) == 0 {
			return
		}
		h := hs[t.Choose(len(hs), "handle")]
		h.closed = true
		_ = h.conn.Close()
		c.Logf("close handle %d (conn %d)", h.id, h.pc.id)
		c.Fault("handle-close")
		rest := w.openHandles(h.pc)
		switch {
		case len(rest) == 0:
			w.closePC(h.pc, "last handle closed", "")
		case h.pc.reader == h && !h.pc.closed:
			synctest.Wait()
			w.startReader(rest[0])
		}
	case 5: // harness replies to a client through a handle
		hs := w.openHandles(nil)
		if len(hs) == 0 || len(w.clients) == 0 {
			return
		}
		h := hs[t.Choose(len(hs), "handle")]
		cl := w.clients[t.Choose(len(w.clients), "who")]
		if !t.Bias(1, 4, "anypair") {
			// prefer a pair for which a reply is owed
			var pairs [][2]int
			for _, x := range hs {
				for _, y := range w.clients {
					if y.attached == x.pc && !y.selfClosed {
						pairs = append(pairs, [2]int{x.id, y.id})
					}
				}
			}
			if len(pairs) > 0 {
				pr := pairs[t.Choose(len(pairs), "pair")]
				h, cl = w.handles[pr[0]], w.clients[pr[1]]
			}
		}
		p := w.payload(fmt.Sprintf("r%d", cl.id), []int{30, 0, 700}[t.Pick([]int{4, 1, 1}, "rlen")])
		owed := cl.attached == h.pc && !h.pc.closed && !cl.selfClosed
		if owed && w.wb > 0 && !cl.stalled && t.Bias(1, 6, "client-stalls") {
			// the client stops reading for good; with a write buffer WriteTo still returns at once, and the
			// mux's writer for this connection ends up blocked in the socket - until somebody closes it
			cl.stalled = true
			w.mu.Lock()
			cl.gate = make(chan struct{})
			w.mu.Unlock()
			c.Defer(func() { close(cl.gate) })
			cl.conn.SetRecvCap(8)
			p = w.payload(fmt.Sprintf("r%d", cl.id), 700)
			c.Fault("client-stops-reading")
		}
		if cl.stalled && w.wb == 0 {
			return // (another reply to it would block this goroutine as well)
		}
		if owed && w.wb == 0 && !cl.stalled && !w.closing && t.Bias(1, 8, "client-stalls-unbuffered") {
			// without a write buffer the reply to a client that has stopped reading blocks its writer (here: a
			// goroutine of the application) in the socket. That is this client's problem only: other clients of
			// the ufrag still attach and are served, and Close / RemoveConnByUfrag / expiry still return
			cl.stalled = true
			w.mu.Lock()
			cl.gate = make(chan struct{})
			w.mu.Unlock()
			c.Defer(func() { close(cl.gate) })
			cl.conn.SetRecvCap(8)
			big := w.payload(fmt.Sprintf("r%d", cl.id), 700)
			go func() { _, _ = h.conn.WriteTo(big, cl.addr) }()
			synctest.Wait()
			c.Fault("client-stops-reading-writer-blocked")
			return
		}
		var n int
		var err error
		done, pv := tsCall(func() { n, err = h.conn.WriteTo(p, cl.addr) })
		c.Logf("WriteTo(handle %d, client %d, %d bytes) owed=%v -> n=%d err=%v", h.id, cl.id, len(p), owed, n, err != nil)
		switch {
		case pv != "":
			c.Failf("C15/panic", "WriteTo panicked: %s", pv)
		case !done:
			c.Failf("C15/writeto-blocked", "WriteTo to client %d did not return", cl.id)
		case owed && err != nil:
			c.Failf("C15/reply-refused", "WriteTo(%s) on the packet conn of %s returned %v although client %d is attached to it", cl.addr, h.pc.ufrag, err, cl.id)
		case owed && cl.stalled:
			c.Probe("reply-to-stalled-client")
		case owed:
			cl.replies = append(cl.replies, p)
			c.Probe("reply-delivered")
		default:
			c.Probe("reply-to-unattached-address")
		}
	case 6: // time passes
		var d time.Duration
		switch t.Pick([]int{4, 3, 2, 2, 1}, "dt") {
		case 0:
			d = 100 * time.Millisecond
		case 1:
			d = time.Second
		case 2: // exactly up to the next timer of the model
			d = w.nextDeadline() - c.Now()
		case 3: // just short of it
			d = w.nextDeadline() - c.Now() - time.Millisecond
		default:
			d = w.first
		}
		if d <= 0 {
			d = 50 * time.Millisecond
		}
		w.advanceTo(c.Now() + d)
	case 7: // RemoveConnByUfrag
		uf := c15Ufrags[t.Choose(len(c15Ufrags), "ufrag")]
		c.Logf("RemoveConnByUfrag(%s)", uf)
		done, pv := tsCall(func() { w.mux.RemoveConnByUfrag(uf) })
		if pv != "" {
			c.Failf("C15/panic", "RemoveConnByUfrag panicked: %s", pv)
			return
		}
		if !done {
			c.Failf("C15/remove-blocked", "RemoveConnByUfrag(%s) did not return", uf)
			return
		}
		c.Fault("remove-conn")
		for _, pc := range w.pcs {
			if pc.ufrag == uf {
				w.closePC(pc, "RemoveConnByUfrag", "")
			}
		}
	case 8: // a client goes away, or the mux is closed early
		switch t.Pick([]int{4, 2, 1}, "bye") {
		case 0:
			if len(w.clients) > 0 {
				w.clientClose(w.clients[t.Choose(len(w.clients), "who")], false)
			}
		case 1:
			if len(w.clients) > 0 {
				w.clientClose(w.clients[t.Choose(len(w.clients), "who")], true)
			}
		default:
			if !w.closing {
				w.startClose()
			}
		}
	}
}

func (w *c15World) serverClosed(cl *c15Client) bool {
	if !cl.srv.Closed() {
		return false
	}
	if cl.selfClosed || cl.stalled {
		return true // (a client that has stopped reading does not see the closure either)
	}
	w.mu.Lock()
	defer w.mu.Unlock()
	return cl.rxErr != nil // the client's own Read has seen the closure
}

// evaluate runs at a quiescent point after every step.
func (w *c15World) evaluate() {
	c := w.c
	now := c.Now()

	// 1. timers of the model
	for _, pc := range w.pcs {
		if !pc.closed && pc.provisional && now >= pc.expiresAt {
			c.Logf("conn %d (provisional, %s) expires", pc.id, pc.ufrag)
			c.Fault("provisional-expired")
			w.closePC(pc, "the provisional conn expired (AliveDurationForConnFromStun)", "provisional-not-expired")
		}
	}
	for _, cl := range w.clients {
		if cl.verdict == c15Pending && now >= cl.dl {
			w.bad(cl, "late", "first frame not complete within FirstStunBindTimeout")
		}
		if cl.verdict == c15Bad && now >= cl.dl && cl.mustClose == "" {
			cl.mustClose, cl.mustWhy = "bad-first-frame-not-closed/"+cl.badWhy, "its first frame is "+cl.badWhy+" and FirstStunBindTimeout has passed"
		}
		if cl.verdict == c15Bad && cl.srv.Closed() && now < cl.dl {
			c.State("bad client closed before the timeout: " + cl.badWhy)
		}
	}
	w.mu.Lock()
	closeDone, closePanic := w.closeDone, w.closePanic
	w.mu.Unlock()
	if closePanic != "" {
		c.Failf("C15/panic", "TCPMuxDefault.Close panicked: %s", closePanic)
		return
	}
	if closeDone && !w.closeChecked {
		for _, pc := range w.pcs {
			w.closePC(pc, "the mux was closed", "close-left-stream-open")
		}
		for _, cl := range w.clients {
			if cl.mustClose == "" {
				cl.mustClose, cl.mustWhy = "close-left-stream-open", "TCPMuxDefault.Close has returned"
			}
		}
	}

	// 2. what arrived on the packet conns
	for _, pc := range w.pcs {
		w.mu.Lock()
		evs := append([]c15Ev(nil), pc.events[pc.seen:]...)
		pc.seen = len(pc.events)
		w.mu.Unlock()
		for _, e := range evs {
			if e.err != nil {
				continue
			}
			var cl *c15Client
			for _, x := range w.clients {
				if x.addr.String() == e.addr {
					cl = x
				}
			}
			switch {
			case cl == nil:
				c.Failf("C15/packet-from-unknown-address", "the conn of %s delivered %d bytes from %s, which is no client", pc.ufrag, e.n, e.addr)
			case cl.home != pc:
				home := "none"
				if cl.home != nil {
					home = cl.home.ufrag
				}
				c.Failf("C15/packet-on-wrong-conn", "the conn of ufrag %s (plane %d) delivered a packet of client %d, whose first message names ufrag %s (its conn: %s)", pc.ufrag, pc.plane, cl.id, cl.ufrag, home)
			case cl.delivered >= len(cl.sent):
				c.Failf("C15/packet-fabricated", "client %d sent %d packets, the conn of %s delivered one more (%d bytes)", cl.id, len(cl.sent), pc.ufrag, e.n)
			case !bytes.Equal(e.data, cl.sent[cl.delivered]):
				c.Failf("C15/packet-out-of-order-or-altered", "client %d: delivery #%d has %d bytes %q, sent #%d has %d bytes %q", cl.id, cl.delivered, e.n, c15Head(e.data), cl.delivered, len(cl.sent[cl.delivered]), c15Head(cl.sent[cl.delivered]))
			default:
				cl.delivered++
				if cl.delivered == 1 {
					c.Probe("first-message-delivered")
				} else {
					c.Probe("later-packet-delivered")
				}
			}
			if c.Failed() {
				return
			}
		}
	}

	// 3. per client
	var sum []string
	for _, cl := range w.clients {
		closed := w.serverClosed(cl)
		if cl.mustClose != "" && !closed {
			c.Failf("C15/"+cl.mustClose, "client %d (%s, kind %s, dialled at %v): its stream is still open at %v although %s", cl.id, cl.addr, c15KindName[cl.kind], cl.dialAt, now, cl.mustWhy)
			return
		}
		if cl.attached != nil && !cl.selfClosed && cl.srv.Closed() {
			c.Failf("C15/attached-stream-closed", "client %d is attached to the live conn of %s, yet the mux closed its stream", cl.id, cl.ufrag)
			return
		}
		if pc := cl.attached; pc != nil && pc.reader != nil && !pc.reader.closed && !cl.aborted && cl.delivered != len(cl.sent) {
			c.Failf("C15/packet-not-delivered", "client %d (%s) wrote %d packets to the conn of %s, which is being read; %d delivered at quiescence (first missing: %q)",
				cl.id, cl.addr, len(cl.sent), cl.ufrag, cl.delivered, c15Head(cl.sent[cl.delivered]))
			return
		}
		if cl.stalled {
			continue // it stopped reading in the middle of the stream: what it holds is a prefix, not judged
		}
		w.mu.Lock()
		rx := append([]byte(nil), cl.rx...)
		w.mu.Unlock()
		frames, rest := tsDecodeAll(rx)
		for i, f := range frames {
			if i >= len(cl.replies) {
				c.Failf("C15/reply-misdelivered", "client %d received a frame of %d bytes %q that was not written to its address on its conn", cl.id, len(f), c15Head(f))
				return
			}
			if !bytes.Equal(f, cl.replies[i]) {
				c.Failf("C15/reply-altered", "client %d: reply #%d arrived as %d bytes %q, written %d bytes %q", cl.id, i, len(f), c15Head(f), len(cl.replies[i]), c15Head(cl.replies[i]))
				return
			}
		}
		if rest != 0 {
			c.Failf("C15/reply-misframed", "client %d: %d trailing byte(s) on its stream do not form a frame", cl.id, rest)
			return
		}
		if len(frames) != len(cl.replies) {
			c.Failf("C15/reply-lost", "client %d: %d replies were written to its address on its conn, %d arrived", cl.id, len(cl.replies), len(frames))
			return
		}
		st := "-"
		if cl.attached != nil {
			st = fmt.Sprint(cl.attached.id)
		}
		sum = append(sum, fmt.Sprintf("%d:v%d:pc%s:%d/%d:r%d:closed=%v", cl.id, cl.verdict, st, cl.delivered, len(cl.sent), len(frames), closed))
		c.State(fmt.Sprintf("client %s verdict=%d attached=%v closed=%v self=%v closing=%v", c15KindName[cl.kind], cl.verdict, cl.attached != nil, closed, cl.selfClosed, w.closing))
	}
	sort.Strings(sum)
	c.Logf("eval %s", strings.Join(sum, " "))

	// 4. Close
	if w.closing && !closeDone && now > w.closeBound {
		c.Failf("C15/close-did-not-return", "TCPMuxDefault.Close called at %v has not returned at %v (every first-frame deadline and provisional expiry lies before %v)", w.closeAt, now, w.closeBound)
		return
	}
	if closeDone && !w.closeChecked {
		w.closeChecked = true
		c.Logf("Close returned (called at %v)", w.closeAt)
		if now > w.closeAt {
			c.Probe("close-had-to-wait-for-timers")
		}
		if !w.l.Closed() || w.l.AcceptsInFlight() != 0 {
			c.Failf("C15/close-listener", "after Close returned: listener closed=%v, Accept calls still blocked=%d", w.l.Closed(), w.l.AcceptsInFlight())
			return
		}
		for i, s := range w.l.Accepted() {
			r, wr := s.InFlight()
			if !s.Closed() || r != 0 || wr != 0 {
				c.Failf("C15/close-left-stream-open", "after Close returned: accepted stream #%d from %s closed=%v, Read calls still blocked on it=%d, Write calls=%d", i, s.RemoteAddr(), s.Closed(), r, wr)
				return
			}
		}
		if w.l.Backlog() != 0 {
			c.Failf("harness/backlog", "%d connections were never accepted", w.l.Backlog())
		}
	}
}

func c15Head(b []byte) string {
	if i := bytes.IndexByte(b, '|'); i >= 0 && i < 24 {
		return string(b[:i])
	}
	if len(b) > 12 {
		b = b[:12]
	}
	return fmt.Sprintf("%x", b)
}

// c15IPForm returns an IPv4 address in its 4-byte or its 16-byte form (tape's choice); IPv6 addresses unchanged.
func c15IPForm(t *tape.Tape, ip net.IP) net.IP {
	if v4 := ip.To4(); v4 != nil {
		if t.Bias(1, 2, "ip4-form") {
			return v4
		}
		return v4.To16()
	}
	return ip
}
