package checks

import (
	"bytes"
	"errors"
	"fmt"
	"io"
	"net"
	"runtime/debug"
	"strings"
	"sync"
	"testing/synctest"
	"time"

	"github.com/pion/ice/v4"
	"github.com/pion/stun/v3"

	"verif/sim/core"
	"verif/sim/rig"
	"verif/sim/simstream"
	"verif/sim/tape"
)

func init() {
	core.Register(&core.Spec{ID: "C14", Fn: runC14})
}

// ---- helpers shared by the TCP checks (C14, C15) -------------------------------------------

// tsEnc is the harness's own RFC 4571 encoder (two-byte big-endian length, then the packet).
func tsEnc(p []byte) []byte {
	if len(p) > 0xffff {
		panic("tsEnc: packet does not fit a 16-bit length")
	}
	out := make([]byte, 2+len(p))
	out[0], out[1] = byte(len(p)>>8), byte(len(p))
	copy(out[2:], p)
	return out
}

// Results of tsDec.
const (
	tsFrameOK        = iota
	tsFrameEnd       // no byte left
	tsFrameTruncHdr  // one byte left
	tsFrameTruncBody // header complete, fewer bytes than declared
)

// tsDec is the harness's own RFC 4571 decoder: it looks at the frame starting at off.
func tsDec(s []byte, off int) (payload []byte, declared, next, st int) {
	rem := s[off:]
	switch {
	case len(rem) == 0:
		return nil, -1, off, tsFrameEnd
	case len(rem) == 1:
		return nil, -1, off, tsFrameTruncHdr
	}
	declared = int(rem[0])<<8 | int(rem[1])
	if len(rem) < 2+declared {
		return nil, declared, off, tsFrameTruncBody
	}
	return rem[2 : 2+declared], declared, off + 2 + declared, tsFrameOK
}

// tsDecodeAll decodes every complete frame of s; rest is the number of trailing bytes that do not form a frame.
func tsDecodeAll(s []byte) (frames [][]byte, rest int) {
	off := 0
	for {
		p, _, next, st := tsDec(s, off)
		if st != tsFrameOK {
			return frames, len(s) - off
		}
		frames = append(frames, p)
		off = next
	}
}

// tsCall runs f (a call into the code under test) on its own goroutine, waits for quiescence and
// reports whether it returned and whether it panicked. A call that is still blocked stays blocked;
// the caller must release it (close the stream) before the run ends.
func tsCall(f func()) (done bool, panicked string) {
	var mu sync.Mutex
	go func() {
		defer func() {
			r := recover()
			mu.Lock()
			if r != nil {
				panicked = fmt.Sprintf("%v\n%s", r, tsFirstLines(string(debug.Stack()), 24))
			}
			done = true
			mu.Unlock()
		}()
		f()
	}()
	synctest.Wait()
	mu.Lock()
	defer mu.Unlock()
	return done, panicked
}

func tsFirstLines(s string, n int) string {
	parts := strings.Split(s, "\n")
	if len(parts) > n {
		parts = parts[:n]
	}
	return strings.Join(parts, "\n")
}

// tsPayload returns n deterministic pseudo-random bytes for (salt, idx); the first bytes carry idx so
// that two packets of a run never have the same contents.
func tsPayload(salt uint64, idx, n int) []byte {
	b := make([]byte, n)
	x := salt*0x9e3779b97f4a7c15 + uint64(idx+1)*0xbf58476d1ce4e5b9
	for i := 0; i < n; i += 8 {
		x += 0x9e3779b97f4a7c15
		z := x
		z = (z ^ (z >> 30)) * 0xbf58476d1ce4e5b9
		z = (z ^ (z >> 27)) * 0x94d049bb133111eb
		z ^= z >> 31
		for j := 0; j < 8 && i+j < n; j++ {
			b[i+j] = byte(z >> (8 * j))
		}
	}
	if n >= 4 {
		b[0], b[1], b[2], b[3] = 'P', byte(idx>>8), byte(idx), byte(salt)
	}
	return b
}

// tsBinding builds a STUN message with pion/stun (deterministic transaction id).
func tsBinding(method stun.Method, class stun.MessageClass, seq uint32, username *string, pad int) []byte {
	m := new(stun.Message)
	m.Type = stun.MessageType{Method: method, Class: class}
	copy(m.TransactionID[:], []byte("verif-tcpmux"))
	m.TransactionID[8], m.TransactionID[9], m.TransactionID[10], m.TransactionID[11] = byte(seq>>24), byte(seq>>16), byte(seq>>8), byte(seq)
	m.WriteHeader()
	if username != nil {
		_ = stun.NewUsername(*username).AddTo(m)
	}
	if pad > 0 {
		m.Add(stun.AttrSoftware, bytes.Repeat([]byte{'s'}, pad))
	}
	m.WriteLength()
	return append([]byte(nil), m.Raw...)
}

// tsCloseMux calls mux.Close on its own goroutine and lets the fake clock run until it returns
// (Close waits for connections whose first frame is still outstanding). It reports the simulated
// time Close took and whether it returned within limit.
func tsCloseMux(mux *ice.TCPMuxDefault, limit time.Duration, step time.Duration) (took time.Duration, returned bool, panicked string) {
	start := time.Now()
	var mu sync.Mutex
	done := false
	go func() {
		defer func() {
			r := recover()
			mu.Lock()
			if r != nil {
				panicked = fmt.Sprintf("%v\n%s", r, tsFirstLines(string(debug.Stack()), 24))
			}
			done = true
			mu.Unlock()
		}()
		_ = mux.Close()
	}()
	for {
		synctest.Wait()
		mu.Lock()
		d := done
		mu.Unlock()
		if d {
			return time.Since(start), true, panicked
		}
		if time.Since(start) > limit {
			return time.Since(start), false, panicked
		}
		time.Sleep(step)
	}
}

// ---- C14 -----------------------------------------------------------------------------------

const c14MTU = 8192 // ice's receive MTU (documented in the statement)

func c14Len(t *tape.Tape, label string) int {
	switch t.Pick([]int{6, 2, 2, 2, 2, 2, 2, 2, 1, 3}, label) {
	case 0:
		return t.Range(3, 200, label+".small")
	case 1:
		return 0
	case 2:
		return 1
	case 3:
		return 2
	case 4:
		return 511
	case 5:
		return 512
	case 6:
		return 8191
	case 7:
		return 8192
	case 8:
		return 65535
	default:
		return t.Range(0, 65535, label+".any")
	}
}

// c14Rare: how often (1 in n) a write of more than 65535 bytes and an MTU-sized reply through the mux's
// write buffer are generated. Both inputs used to run into framing defects (fixed, see
// known_findings.json) and were kept rare so that they did not shadow the rest of the exploration.
func c14Rare(_ *core.Ctx) (oversize, mtuReply int) {
	return 12, 3
}

func runC14(c *core.Ctx) {
	t := c.T
	kind := t.Pick([]int{6, 4, 3}, "kind")
	rareOversize, _ := c14Rare(c)
	oversize := t.Bias(1, rareOversize, "oversize")
	c.Knob("kind", []string{"direct", "mux", "garbage"}[kind])
	c.Knob("oversize", oversize)
	switch {
	case t.Bias(1, 6, "active-tcp"):
		c.Knob("kind", "active-tcp")
		c14Active(c)
	case kind == 1:
		c14Mux(c, oversize)
	case oversize:
		c14OversizeDirect(c)
	default:
		c14Direct(c, kind == 2)
	}
}

var (
	c14AddrW = &net.TCPAddr{IP: net.IPv4(10, 0, 1, 1), Port: 5001}
	c14AddrR = &net.TCPAddr{IP: net.IPv4(10, 0, 0, 1), Port: 4000}
)

// c14ChunkStats is filled by the chunker on whatever goroutine reads the stream and folded into
// the run's counters by the root goroutine at a quiescent point.
type c14ChunkStats struct {
	mu                        sync.Mutex
	hdrSplit, short, coalesce bool
}

func (s *c14ChunkStats) flush(c *core.Ctx) {
	s.mu.Lock()
	defer s.mu.Unlock()
	if s.hdrSplit {
		c.Probe("header-split-across-reads")
	}
	if s.short {
		c.Fault("short-reads")
	}
	if s.coalesce {
		c.Probe("more-queued-than-requested(coalesced)")
	}
}

// c14Chunker picks the segmentation of the byte stream as the reader sees it.
func c14Chunker(c *core.Ctx, onTape bool) (simstream.ChunkFunc, *c14ChunkStats) {
	t := c.T
	st := &c14ChunkStats{}
	var f simstream.ChunkFunc
	w := []int{4, 2, 2, 2, 3}
	if !onTape {
		w[4] = 0
	}
	mode := t.Pick(w, "chunkmode")
	c.Knob("chunk", []string{"full", "one-byte", "seeded", "header-split", "tape"}[mode])
	switch mode {
	case 0:
		f = simstream.Full
	case 1:
		f = simstream.OneByte
	case 2:
		f = simstream.Seeded(uint64(t.Choose(1<<24, "chunkseed")))
	case 3:
		f = simstream.Plan([]int{1, 1, 0})
	default:
		budget := 48
		f = func(avail, want int) int {
			m := min(avail, want)
			if budget == 0 || m <= 1 {
				return m
			}
			budget--
			switch t.Pick([]int{3, 2, 3}, "chunk") {
			case 0:
				return m
			case 1:
				return 1
			default:
				return t.Range(1, m, "chunk.n")
			}
		}
	}
	return func(avail, want int) int {
		n := f(avail, want)
		st.mu.Lock()
		if want == 2 && (n == 1 || avail == 1) {
			st.hdrSplit = true
		}
		if n < min(avail, want) {
			st.short = true
		}
		if avail > want {
			st.coalesce = true
		}
		st.mu.Unlock()
		return n
	}, st
}

// c14Direct drives readStreamingPacket / writeStreamingPacket through the tagged seams over one stream.
func c14Direct(c *core.Ctx, garbage bool) {
	t := c.T
	w, r := simstream.Pair(c14AddrW, c14AddrR)
	c.Defer(func() { _ = w.Close(); _ = r.Close() })
	salt := uint64(t.Choose(1<<16, "salt"))

	// 1. the byte stream
	var stream []byte
	if !garbage {
		n := t.Range(1, 6, "npackets")
		wfaulted := false
		for i := 0; i < n && !c.Failed(); i++ {
			ln := c14Len(t, "len")
			if ln == 0 {
				c.Probe("zero-length-packet")
			}
			if ln == 65535 {
				c.Probe("len-65535")
			}
			pkt := tsPayload(salt, i, ln)
			faultAt := -1
			if t.Bias(1, 12, "wfault") { // the stream fails while this frame is being written
				faultAt = t.Range(0, 1+ln, "wfault.at")
				w.FailWriteAt(int64(len(stream)+faultAt), errors.New("simstream: injected write error"))
				c.Fault("write-error-mid-frame")
			}
			var wn int
			var werr error
			c.Step++
			done, pv := tsCall(func() { wn, werr = ice.VerifWriteStreamingPacket(w, pkt) })
			c.Logf("write #%d len=%d fault=%d -> n=%d err=%v", i, ln, faultAt, wn, werr)
			if pv != "" {
				c.Failf("C14/panic", "writeStreamingPacket(len=%d) panicked: %s", ln, pv)
				return
			}
			if !done {
				c.Failf("C14/write-blocked", "writeStreamingPacket(len=%d) did not return on a stream with unbounded room", ln)
				return
			}
			if faultAt >= 0 {
				wire := r.Buffered()
				full := append(append([]byte(nil), stream...), tsEnc(pkt)...)
				if werr == nil {
					c.Failf("C14/write-error-swallowed", "the stream failed after %d of %d bytes of frame #%d, writeStreamingPacket returned n=%d err=nil", len(wire)-len(stream), 2+ln, i, wn)
					return
				}
				if !bytes.HasPrefix(full, wire) {
					c.Failf("C14/writer-wire-format", "after the failed write of packet #%d the wire is not a prefix of the RFC 4571 encoding (first difference at byte %d)", i, c14FirstDiff(wire, full))
					return
				}
				stream, wfaulted = wire, true
				break
			}
			if werr != nil || wn != ln {
				c.Failf("C14/valid-write-refused", "writeStreamingPacket(len=%d) returned n=%d err=%v", ln, wn, werr)
				return
			}
			wire := r.Buffered()
			want := append(append([]byte(nil), stream...), tsEnc(pkt)...)
			if !bytes.Equal(wire, want) {
				c.Failf("C14/writer-wire-format", "after writing packet #%d (len %d) the wire holds %d bytes, the RFC 4571 encoding has %d; first difference at byte %d",
					i, ln, len(wire), len(want), c14FirstDiff(wire, want))
				return
			}
			stream = want
		}
		if t.Bias(1, 8, "garbagetail") && !wfaulted {
			tail := t.Bytes(t.Range(1, 40, "taillen"), "tail")
			_, _ = w.Write(tail)
			stream = append(stream, tail...)
			c.Fault("garbage-after-frames")
		}
	} else {
		switch t.Pick([]int{3, 2, 2}, "gshape") {
		case 0: // arbitrary bytes
			stream = t.Bytes(t.Range(0, 400, "glen"), "g")
		case 1: // headers that promise more than follows / huge lengths
			for i, n := 0, t.Range(1, 6, "gframes"); i < n; i++ {
				decl := c14Len(t, "gdecl")
				have := decl
				if t.Bias(1, 3, "gshort") {
					have = t.Range(0, decl, "ghave")
				}
				if have > 70000 {
					have = 70000
				}
				stream = append(stream, byte(decl>>8), byte(decl))
				stream = append(stream, tsPayload(salt, 100+i, have)...)
			}
		default: // low-entropy bytes: many tiny frames
			b := []byte{0, 0, 0, 1, 2, 0xff}
			for i, n := 0, t.Range(0, 120, "glow"); i < n; i++ {
				stream = append(stream, b[t.Choose(len(b), "gb")])
			}
		}
		_, _ = w.Write(stream)
		c.Fault("garbage-stream")
	}
	if c.Failed() {
		return
	}

	// 2. how the stream ends: always by closure, possibly cut short at an arbitrary offset
	cut := len(stream)
	endErr := io.EOF
	endMode := t.Pick([]int{4, 3, 2, 2, 2}, "end")
	if endMode != 0 && len(stream) > 0 {
		switch t.Pick([]int{2, 2, 2, 3}, "cutwhere") {
		case 0: // inside a header
			off := c14FrameStart(stream, t.Choose(8, "cutframe"))
			cut = min(len(stream), off+1)
		case 1: // inside a body
			off := c14FrameStart(stream, t.Choose(8, "cutframe"))
			_, decl, _, _ := tsDec(stream, min(off, len(stream)))
			if decl > 0 {
				cut = min(len(stream), off+2+t.Range(0, decl-1, "cutbody"))
			} else {
				cut = min(len(stream), off+1)
			}
		case 2: // exactly at a frame boundary
			cut = min(len(stream), c14FrameStart(stream, 1+t.Choose(8, "cutframe")))
		default:
			cut = t.Range(0, len(stream), "cutoff")
		}
		switch endMode {
		case 2:
			endErr = simstream.ErrReset
		case 3:
			endErr = errors.New("simstream: injected read error")
		case 4:
			endErr = io.ErrUnexpectedEOF
		}
		r.FailReadAt(int64(cut), endErr)
		if cut < len(stream) {
			c.Fault("stream-cut")
		}
	}
	_ = w.Close()
	eff := stream[:cut]
	c.Knob("stream_len", len(stream))
	c.Knob("cut", cut)
	c.Logf("stream len=%d cut=%d end=%v", len(stream), cut, endErr)
	chunk, cst := c14Chunker(c, true)
	r.SetChunker(chunk)
	defer cst.flush(c)

	// 3. read it back frame by frame with tape-chosen buffer sizes
	off := 0
	for reads := 0; reads < 400 && !c.Failed(); reads++ {
		_, decl, next, st := tsDec(eff, off)
		size := c14BufSize(t, decl)
		extraCap := 0
		if t.Bias(1, 16, "lencap") {
			extraCap = t.Range(1, 4096, "extracap")
		}
		buf := make([]byte, size, size+extraCap)
		var n int
		var err error
		r.ResetStats()
		before := r.Consumed()
		c.Step++
		done, pv := tsCall(func() { n, err = ice.VerifReadStreamingPacket(r, buf) })
		stt := r.Stats()
		consumed := int(r.Consumed() - before)
		c.Logf("read @%d buf=%d/%d decl=%d st=%d -> n=%d err=%v consumed=%d maxreq=%d", off, size, size+extraCap, decl, st, n, err, consumed, stt.MaxReadReq)
		if pv != "" {
			c.Failf("C14/panic", "readStreamingPacket(buffer %d bytes) panicked at stream offset %d (declared length %d): %s", size, off, decl, pv)
			return
		}
		if !done {
			c.Failf("C14/read-blocked", "readStreamingPacket did not return although the stream is closed (offset %d of %d, declared %d, buffer %d)", off, len(eff), decl, size)
			_ = r.Close()
			synctest.Wait()
			return
		}
		// never an unbounded read: no request beyond the header, the caller's buffer or the declared frame
		limit := max(2, size+extraCap)
		if decl >= 0 {
			limit = min(limit, max(2, decl))
		} else {
			limit = 2
		}
		if stt.MaxReadReq > limit {
			c.Failf("C14/unbounded-read", "readStreamingPacket asked the stream for %d bytes in one Read; header 2, declared frame %d, buffer %d", stt.MaxReadReq, decl, size)
			return
		}
		if decl >= 0 && consumed > 2+decl {
			c.Failf("C14/over-consumed", "readStreamingPacket consumed %d bytes for a frame of 2+%d", consumed, decl)
			return
		}
		fits := decl >= 0 && decl <= size
		ambiguous := decl > size && decl <= size+extraCap // slice shorter than its backing array: not what the statement is about
		switch {
		case st == tsFrameEnd || st == tsFrameTruncHdr:
			if st == tsFrameTruncHdr {
				c.Probe("closure-mid-header")
			} else {
				c.Probe("closure-at-frame-boundary")
			}
			if err == nil {
				c.Failf("C14/truncated-header-accepted", "stream ended %d byte(s) into a header at offset %d, readStreamingPacket returned n=%d err=nil", len(eff)-off, off, n)
			}
		case !fits && !ambiguous:
			c.Probe("frame-larger-than-buffer")
			if err == nil {
				c.Failf("C14/short-buffer-accepted", "frame of %d bytes, buffer of %d: readStreamingPacket returned n=%d err=nil", decl, size, n)
			}
		case st == tsFrameTruncBody:
			c.Probe("closure-mid-body")
			if err == nil {
				c.Failf("C14/truncated-body-accepted", "frame declares %d bytes, stream ends after %d of them: readStreamingPacket returned n=%d err=nil", decl, len(eff)-off-2, n)
			}
		case ambiguous:
			c.Probe("frame-between-len-and-cap")
			if err == nil {
				c.Probe("reader-wrote-beyond-len(buf)-into-cap(buf)")
				if n != decl || !bytes.Equal(buf[:n:n], eff[off+2:next]) {
					c.Failf("C14/packet-corrupted", "frame of %d bytes at offset %d came back as %d bytes (different contents)", decl, off, n)
				}
			}
		default: // a complete frame that fits
			if err != nil {
				c.Failf("C14/valid-frame-rejected", "complete frame of %d bytes at offset %d, buffer %d: readStreamingPacket returned err=%v", decl, off, size, err)
				return
			}
			if n != decl || !bytes.Equal(buf[:n], eff[off+2:next]) {
				c.Failf("C14/packet-corrupted", "frame of %d bytes at offset %d came back as %d bytes; first difference at byte %d (merged, split or fabricated packet)",
					decl, off, n, c14FirstDiff(buf[:max(0, min(n, len(buf)))], eff[off+2:next]))
				return
			}
			if consumed != 2+decl {
				c.Failf("C14/over-consumed", "readStreamingPacket consumed %d bytes for a frame of 2+%d", consumed, decl)
				return
			}
			if decl == size {
				c.Probe("frame-exactly-buffer-size")
			}
		}
		c.State(fmt.Sprintf("direct frame=%d fits=%v lencap=%v err=%v end=%d garbage=%v", st, fits, extraCap > 0, err != nil, endMode, garbage))
		if err != nil || c.Failed() {
			return // error or closure of that stream: nothing more is read from it
		}
		off = next
	}
}

// c14BufSize picks the reader's buffer size around the declared length of the next frame.
func c14BufSize(t *tape.Tape, decl int) int {
	d := max(decl, 0)
	switch t.Pick([]int{7, 3, 3, 1, 1, 1, 1, 1, 2}, "buf") {
	case 0:
		return 65535
	case 1:
		return d
	case 2:
		return max(d-1, 0)
	case 3:
		return 0
	case 4:
		return 1
	case 5:
		return 512
	case 6:
		return c14MTU
	case 7:
		return min(d+1, 65535)
	default:
		return t.Range(0, 65535, "buf.any")
	}
}

// c14FrameStart returns the offset of the k-th frame of s by the reference decoder (the end of the
// decodable prefix when there are fewer frames).
func c14FrameStart(s []byte, k int) int {
	off := 0
	for i := 0; i < k; i++ {
		_, _, next, st := tsDec(s, off)
		if st != tsFrameOK {
			break
		}
		off = next
	}
	return off
}

func c14FirstDiff(a, b []byte) int {
	for i := 0; i < len(a) && i < len(b); i++ {
		if a[i] != b[i] {
			return i
		}
	}
	return min(len(a), len(b))
}

// c14PeerView describes what an RFC 4571 peer decodes from wire.
func c14PeerView(wire []byte) string {
	frames, rest := tsDecodeAll(wire)
	var lens []string
	for i, f := range frames {
		if i == 6 {
			lens = append(lens, "...")
			break
		}
		lens = append(lens, fmt.Sprint(len(f)))
	}
	return fmt.Sprintf("%d packet(s) of lengths [%s] and %d undecodable trailing byte(s)", len(frames), strings.Join(lens, " "), rest)
}

// c14CheckOversizeWire evaluates what a write of more than 65535 bytes left on the wire.
func c14CheckOversizeWire(c *core.Ctx, what string, ln, n int, err error, wire []byte, closed bool) {
	if len(wire) >= 2 {
		hdr := int(wire[0])<<8 | int(wire[1])
		if hdr != len(wire)-2 || hdr != ln {
			c.Failf("C14/oversize-write-truncated-length-header",
				"%s of a %d-byte packet returned n=%d err=%v and put %d bytes on the wire whose length header says %d (%d mod 65536 = %d); an RFC 4571 peer decodes %s",
				what, ln, n, err, len(wire), hdr, ln, ln%65536, c14PeerView(wire))
			return
		}
	}
	if len(wire) > 0 {
		c.Failf("C14/oversize-write-partial-frame", "%s of a %d-byte packet left %d stray byte(s) on the wire (n=%d err=%v)", what, ln, len(wire), n, err)
		return
	}
	if err == nil && !closed {
		c.Failf("C14/oversize-write-silently-dropped", "%s of a %d-byte packet returned n=%d err=nil, wrote nothing and left the stream open", what, ln, n)
	}
}

// c14OversizeDirect: packets too long for the 16-bit length field, straight into the writer seam.
func c14OversizeDirect(c *core.Ctx) {
	t := c.T
	w, r := simstream.Pair(c14AddrW, c14AddrR)
	c.Defer(func() { _ = w.Close(); _ = r.Close() })
	ln := []int{65536, 65537, 70000}[t.Choose(3, "oversize.len")]
	if t.Bias(1, 2, "oversize.any") {
		ln = t.Range(65536, 70000, "oversize.n")
	}
	pkt := tsPayload(7, 0, ln)
	var n int
	var err error
	c.Step++
	done, pv := tsCall(func() { n, err = ice.VerifWriteStreamingPacket(w, pkt) })
	c.Fault("oversize-write")
	c.Logf("oversize write len=%d -> n=%d err=%v wire=%d", ln, n, err, r.BufferedLen())
	if pv != "" {
		c.Failf("C14/panic", "writeStreamingPacket(len=%d) panicked: %s", ln, pv)
		return
	}
	if !done {
		c.Failf("C14/write-blocked", "writeStreamingPacket(len=%d) did not return", ln)
		return
	}
	c14CheckOversizeWire(c, "writeStreamingPacket", ln, n, err, r.Buffered(), w.Closed())
}

type c14Ev struct {
	n    int
	addr string
	err  error
	data []byte
}

// c14Mux drives the same framing code through a real TCPMuxDefault and its packet conn.
func c14Mux(c *core.Ctx, oversize bool) {
	t := c.T
	rb := []int{16, 0, 1}[t.Pick([]int{4, 1, 1}, "readbuf")]
	wb := []int{0, 4 << 20, 1 << 16}[t.Pick([]int{5, 2, 1}, "writebuf")]
	rsize := []int{c14MTU, 65535, 100, 0}[t.Pick([]int{6, 2, 1, 1}, "rsize")]
	// an MTU-sized reply through the write buffer runs into a known defect: generated rarely
	_, rareReply := c14Rare(c)
	mtuReplyOK := wb == 0 || t.Bias(1, rareReply, "mtureply")
	salt := uint64(t.Choose(1<<16, "salt"))
	c.Knob("readbuf", rb)
	c.Knob("writebuf", wb)
	c.Knob("rsize", rsize)

	lip := net.IPv4(10, 0, 0, 1)
	l := simstream.Listen(&net.TCPAddr{IP: lip, Port: 4000})
	mux := ice.NewTCPMuxDefault(ice.TCPMuxParams{Listener: l, Logger: rig.Quiet().NewLogger("c14"), ReadBufferSize: rb, WriteBufferSize: wb})
	muxClosed := false
	closeMux := func() {
		if muxClosed {
			return
		}
		muxClosed = true
		if _, ok, pv := tsCloseMux(mux, 90*time.Second, 31*time.Second); pv != "" {
			c.Failf("C14/panic", "TCPMuxDefault.Close panicked: %s", pv)
		} else if !ok {
			c.Failf("harness/mux-close", "TCPMuxDefault.Close did not return")
		}
	}
	c.Defer(closeMux)

	pc, err := mux.GetConnByUfrag("ufA", false, lip)
	if err != nil {
		c.Failf("harness/getconn", "%v", err)
		return
	}
	c.Defer(func() { _ = pc.Close() })

	// a second connection for the same ufrag whose first frame arrives while the first connection's first
	// packet has not been read yet (the reader starts late)
	second := rsize >= 100 && t.Bias(1, 4, "second-client")
	startRead := make(chan struct{})
	if !second {
		close(startRead)
	}
	cli2Addr := &net.TCPAddr{IP: net.IPv4(10, 0, 1, 2), Port: 5002}
	var first2 []byte
	var mu sync.Mutex
	var evs []c14Ev
	go func() {
		<-startRead
		for i := 0; i < 100000; i++ {
			buf := make([]byte, rsize)
			n, addr, err := pc.ReadFrom(buf)
			ev := c14Ev{n: n, err: err}
			if addr != nil {
				ev.addr = addr.String()
			}
			if err == nil && n >= 0 && n <= len(buf) {
				ev.data = buf[:n]
			}
			mu.Lock()
			evs = append(evs, ev)
			mu.Unlock()
			if err != nil && addr == nil {
				return
			}
		}
	}()

	cliAddr := &net.TCPAddr{IP: net.IPv4(10, 0, 1, 1), Port: 5001}
	chunk, cst := c14Chunker(c, false)
	cli, err := l.Dial(cliAddr, simstream.DialOpts{ServerChunker: chunk})
	if err != nil {
		c.Failf("harness/dial", "%v", err)
		return
	}
	c.Defer(func() { _ = cli.Close() })
	var cliBytes []byte
	var cliErr error
	go func() {
		buf := make([]byte, 32768)
		for {
			n, err := cli.Read(buf)
			mu.Lock()
			cliBytes = append(cliBytes, buf[:n]...)
			if err != nil {
				cliErr = err
			}
			mu.Unlock()
			if err != nil {
				return
			}
		}
	}()

	// client -> mux bookkeeping
	var sent [][]byte // packets fully written while the stream was intact
	broken := false   // the client's stream is beyond repair (oversized frame, truncation, close)
	beyond := false   // ... because of a frame larger than the mux's receive buffer
	cliClosed := false
	// mux -> client bookkeeping
	var replies [][]byte
	seenCli := 0

	uname := "ufA:peer"
	first := tsBinding(stun.MethodBinding, stun.ClassRequest, 1, &uname, 0)
	firstWire := tsEnc(first)
	sent = append(sent, first)
	if c.T.Bias(1, 3, "pipelined-first") {
		// packets follow the first frame at once: the chunk that completes the first frame (chunking is the
		// tape's) carries the beginning of the next frames
		for j, k := 0, c.T.Range(1, 3, "pipelined.k"); j < k; j++ {
			p := tsPayload(7, 9000+j, []int{1, 24, 300, 1000}[c.T.Choose(4, "pipelined.len")])
			p[0] = 0x40 | p[0]&0x3f
			firstWire = append(firstWire, tsEnc(p)...)
			sent = append(sent, p)
		}
		c.Fault("frames-pipelined-behind-first-frame")
	}
	_, _ = cli.Write(firstWire)
	synctest.Wait()
	if second {
		cli2, err := l.Dial(cli2Addr, simstream.DialOpts{})
		if err != nil {
			c.Failf("harness/dial", "%v", err)
			return
		}
		c.Defer(func() { _ = cli2.Close() })
		uname2 := "ufA:peer2"
		first2 = tsBinding(stun.MethodBinding, stun.ClassRequest, 2, &uname2, 8)
		_, _ = cli2.Write(tsEnc(first2))
		synctest.Wait()
		c.Fault("second-connection-before-first-packet-is-read")
		close(startRead)
		synctest.Wait()
	}

	evaluate := func(final bool) {
		mu.Lock()
		all := append([]c14Ev(nil), evs...)
		wire := append([]byte(nil), cliBytes...)
		mu.Unlock()
		var got, got2 []c14Ev
		for _, e := range all {
			if second && e.addr == cli2Addr.String() {
				got2 = append(got2, e)
			} else {
				got = append(got, e)
			}
		}
		if second && !muxClosed {
			if len(got2) != 1 || got2[0].err != nil || !bytes.Equal(got2[0].data, first2) {
				n, d := -1, -1
				if len(got2) > 0 {
					n, d = got2[0].n, c14FirstDiff(got2[0].data, first2)
				}
				c.Failf("C14/mux-packet-corrupted", "the second connection sent one packet of %d bytes; ReadFrom delivered %d packet(s) from its address, the first with %d bytes, first difference at byte %d", len(first2), len(got2), n, d)
				return
			}
		}
		var wantOK [][]byte
		tooBig := 0
		for _, p := range sent {
			if len(p) <= rsize {
				wantOK = append(wantOK, p)
			} else {
				tooBig++
			}
		}
		var gotOK []c14Ev
		short, errEvents := 0, 0
		for _, e := range got {
			switch {
			case e.err == nil:
				gotOK = append(gotOK, e)
			case errors.Is(e.err, io.ErrShortBuffer):
				short++
				errEvents++
			default:
				errEvents++
			}
		}
		if beyond && short == tooBig+1 {
			short-- // the oversized frame itself was reported as an error to ReadFrom
		}
		for i, e := range gotOK {
			if i >= len(wantOK) {
				c.Failf("C14/mux-packet-fabricated", "ReadFrom delivered packet #%d of %d bytes from %s; only %d packets were sent", i, e.n, e.addr, len(wantOK))
				return
			}
			if e.addr != cliAddr.String() {
				c.Failf("C14/mux-packet-misattributed", "packet #%d arrived with address %s, sent by %s", i, e.addr, cliAddr)
				return
			}
			if !bytes.Equal(e.data, wantOK[i]) {
				c.Failf("C14/mux-packet-corrupted", "packet #%d: sent %d bytes, ReadFrom returned %d bytes; first difference at byte %d (merged, split or altered packet)",
					i, len(wantOK[i]), e.n, c14FirstDiff(e.data, wantOK[i]))
				return
			}
		}
		if len(gotOK) < len(wantOK) {
			c.Failf("C14/mux-packet-missing", "%d packets were sent intact over the TCP stream (each <= %d bytes), ReadFrom delivered %d at quiescence; first missing has %d bytes",
				len(wantOK), c14MTU, len(gotOK), len(wantOK[len(gotOK)]))
			return
		}
		if short != tooBig {
			c.Failf("C14/mux-short-buffer", "%d packets were larger than the ReadFrom buffer (%d bytes); ReadFrom reported io.ErrShortBuffer %d times", tooBig, rsize, short)
			return
		}
		frames, rest := tsDecodeAll(wire)
		for i, f := range frames {
			if i >= len(replies) {
				c.Failf("C14/mux-reply-fabricated", "the client decodes reply #%d of %d bytes; only %d were written", i, len(f), len(replies))
				return
			}
			if !bytes.Equal(f, replies[i]) {
				c.Failf("C14/mux-reply-corrupted", "reply #%d: WriteTo got %d bytes, the client decodes %d bytes; first difference at byte %d", i, len(replies[i]), len(f), c14FirstDiff(f, replies[i]))
				return
			}
		}
		if rest != 0 {
			c.Failf("C14/mux-reply-partial-frame", "the client's stream holds %d trailing byte(s) that do not form a frame", rest)
			return
		}
		if len(frames) < len(replies) {
			c.Failf("C14/mux-reply-lost", "WriteTo accepted %d replies, the client received %d; the first lost one has %d bytes (write buffer %d)", len(replies), len(frames), len(replies[len(frames)]), wb)
			return
		}
		seenCli = len(wire)
		c.State(fmt.Sprintf("mux readbuf=%d writebuf=%v rsize=%d broken=%v beyond=%v clientclosed=%v final=%v", rb, wb > 0, rsize, broken, beyond, cliClosed, final))
		c.Logf("eval sent=%d delivered=%d short=%d replies=%d", len(sent), len(gotOK), short, len(frames))
		if (broken || final) && !cliClosed {
			mu.Lock()
			ce := cliErr
			mu.Unlock()
			if ce == nil && (final || errEvents <= tooBig) {
				why := "the mux was closed"
				if broken {
					why = "its stream is broken (oversized or truncated frame)"
				}
				c.Failf("C14/stream-not-closed", "the client's stream is still open although %s", why)
			}
		}
	}
	evaluate(false)

	steps := t.Range(3, 30, "steps")
	idx := 1
	for i := 0; i < steps && !c.Failed(); i++ {
		c.Step++
		switch t.Pick([]int{5, 4, 1}, "act") {
		case 0: // the client sends 1..3 frames, segmented by the tape
			if cliClosed {
				continue
			}
			k := t.Range(1, 3, "k")
			var wire []byte
			var pkts [][]byte
			for j := 0; j < k; j++ {
				ln := c14Len(t, "len")
				if ln > c14MTU && !t.Bias(1, 6, "beyondmtu") {
					ln = c14MTU - t.Choose(3, "nearmtu")
				}
				p := tsPayload(salt, idx, ln)
				idx++
				pkts = append(pkts, p)
				wire = append(wire, tsEnc(p)...)
			}
			trunc := -1
			if t.Bias(1, 12, "truncate") {
				trunc = t.Range(0, len(wire)-1, "truncat")
				c.Fault("client-close-mid-stream")
			}
			segs := t.Pick([]int{4, 3, 2}, "segs") // 0: one write, 1: two or three writes, 2: header bytes one by one
			offs := []int{len(wire)}
			switch segs {
			case 1:
				a := t.Range(0, len(wire), "seg.a")
				b := t.Range(a, len(wire), "seg.b")
				offs = []int{a, b, len(wire)}
				c.Fault("segmented-write")
			case 2:
				offs = []int{1, 2, 3, len(wire)}
				c.Fault("segmented-write")
			}
			c.Logf("client sends %d frames, %d bytes, segs=%v trunc=%d", k, len(wire), offs, trunc)
			prev := 0
			for _, o := range offs {
				o = min(o, len(wire))
				if trunc >= 0 {
					o = min(o, trunc)
				}
				if o > prev {
					_, _ = cli.Write(wire[prev:o])
					synctest.Wait()
					prev = o
				}
			}
			// which packets went out whole, and is the stream still intact?
			off := 0
			for _, p := range pkts {
				end := off + 2 + len(p)
				hdrOut := trunc < 0 || off+2 <= trunc
				whole := trunc < 0 || end <= trunc
				switch {
				case broken:
				case len(p) > c14MTU && hdrOut:
					broken, beyond = true, true // larger than the mux's receive buffer: error/closure of that stream
					c.Fault("frame-beyond-mtu")
				case whole:
					sent = append(sent, p)
				}
				off = end
			}
			if trunc >= 0 {
				_ = cli.Close()
				cliClosed = true
				broken = true
				synctest.Wait()
			}
		case 1: // the harness replies through the packet conn
			ln := c14Len(t, "rlen")
			big := false
			if oversize && t.Bias(1, 3, "oversize.now") {
				ln = t.Range(65536, 70000, "oversize.n")
				big = true
				c.Fault("oversize-write")
			}
			if !mtuReplyOK && ln > c14MTU-2 && ln <= c14MTU {
				ln = c14MTU - 2
			}
			p := tsPayload(salt^0x5a5a, idx, ln)
			idx++
			var n int
			var werr error
			done, pv := tsCall(func() { n, werr = pc.WriteTo(p, cliAddr) })
			c.Logf("WriteTo len=%d -> n=%d err=%v", ln, n, werr)
			if pv != "" {
				c.Failf("C14/panic", "WriteTo(len=%d) panicked: %s", ln, pv)
				return
			}
			if !done {
				c.Failf("C14/write-blocked", "WriteTo(len=%d) did not return", ln)
				return
			}
			mu.Lock()
			delta := append([]byte(nil), cliBytes[seenCli:]...)
			mu.Unlock()
			switch {
			case big:
				c14CheckOversizeWire(c, fmt.Sprintf("WriteTo on the mux's packet conn (write buffer %d)", wb), ln, n, werr, delta, cli.Peer().Closed())
			case broken || cliClosed:
				// nothing is owed; whatever arrives must still be a well-formed reply (checked below)
				if werr == nil && len(delta) > 0 {
					replies = append(replies, p)
				}
			case werr != nil:
				if ln <= c14MTU {
					c.Failf("C14/mux-writeto-refused", "WriteTo of %d bytes (<= MTU) to the attached client returned n=%d err=%v", ln, n, werr)
				}
			case ln <= c14MTU || wb == 0 || len(delta) > 0:
				replies = append(replies, p)
				if ln > c14MTU-2 && wb > 0 {
					c.Probe("mtu-sized-reply-through-write-buffer")
				}
			default:
				c.Probe("reply-beyond-mtu-dropped-by-write-buffer")
			}
		default:
			time.Sleep(time.Duration(t.Range(1, 2000, "sleep")) * time.Millisecond)
			synctest.Wait()
		}
		if c.Failed() {
			return
		}
		evaluate(false)
	}
	if c.Failed() {
		return
	}
	c.Step++
	closeMux()
	if c.Failed() {
		return
	}
	evaluate(true)
	cst.flush(c)
	if l.AcceptsInFlight() != 0 || !l.Closed() {
		c.Failf("C14/mux-close-listener", "after Close: listener closed=%v, Accept calls in flight=%d", l.Closed(), l.AcceptsInFlight())
	}
}
