package checks

import (
	"errors"
	"fmt"
	"net"
	"net/netip"
	"slices"
	"sort"
	"syscall"
	"testing/synctest"
	"time"

	"github.com/pion/ice/v4"
	"github.com/pion/stun/v3"

	"verif/sim/core"
	"verif/sim/rig"
	"verif/sim/sched"
	"verif/sim/simnet"
	"verif/sim/simstream"
	"verif/sim/tape"
)

// gCfg is one gather configuration (drawn once per base sequence).
type gCfg struct {
	host, srflxStun, srflxMapped, relay bool
	udpMux, udpMuxSrflx                 bool
	tcpMux                              bool
	relayTCP                            bool // TURN over TCP (turn:...?transport=tcp)
	relayTLS                            bool // turns: over TCP against a server that accepts the connection and never answers the ClientHello
	nIPs                                int
	ifaceFilter                         bool
	stunTimeout                         time.Duration
	twoStunURLs                         bool
	parkAllocate                        bool
	sched                               bool // goroutines also park at the entry of every loop submission
	netRev                              bool // the host gatherer walks its networks in reverse order (tcp before udp)
	relayCloseErr                       bool // closing a relayed connection reports an error
	// mappedExt: external addresses of the server-reflexive rewrite rule: 0 one address; 1 two addresses; 2 / 3 two
	// addresses of which the first / second is an IPv6 link-local one, which is never published
	mappedExt int
	// relayExt: a rewrite rule for relay candidates: 0 none; 1 one address appended (one allocation, two
	// candidates); 2 two addresses replacing the relayed one
	relayExt int
	// stunWriteBlocks: sending to the STUN server blocks in the socket (full send queue towards that destination)
	// for as long as the socket lives: only closing the socket, or a write deadline, releases the sender
	stunWriteBlocks bool
	// ipv6: the host also has a global and a link-local IPv6 address and udp6 is enabled (the link-local one gets
	// a socket and a candidate that is never published)
	ipv6 bool
}

func (g gCfg) String() string {
	return fmt.Sprintf("host=%v srflx=%v mapped=%v relay=%v udpMux=%v muxSrflx=%v tcpMux=%v relayTCP=%v ips=%d filter=%v stunTO=%v urls2=%v",
		g.host, g.srflxStun, g.srflxMapped, g.relay, g.udpMux, g.udpMuxSrflx, g.tcpMux, g.relayTCP, g.nIPs, g.ifaceFilter, g.stunTimeout, g.twoStunURLs) + map[bool]string{true: " sched", false: ""}[g.sched] + map[bool]string{true: " netrev", false: ""}[g.netRev] + map[bool]string{true: " relayCloseErr", false: ""}[g.relayCloseErr] +
		fmt.Sprintf(" mappedExt=%d relayExt=%d", g.mappedExt, g.relayExt) + map[bool]string{true: " relayTLS", false: ""}[g.relayTLS] + map[bool]string{true: " stunWriteBlocks", false: ""}[g.stunWriteBlocks] + map[bool]string{true: " ipv6", false: ""}[g.ipv6]
}

func drawGCfg(t *tape.Tape) gCfg {
	g := gCfg{}
	g.host = !t.Bias(1, 5, "nohost")
	g.srflxStun = t.Bias(1, 2, "srflx")
	g.srflxMapped = t.Bias(1, 4, "mapped")
	g.relay = t.Bias(1, 3, "relay")
	g.udpMux = t.Bias(1, 4, "udpmux")
	g.udpMuxSrflx = g.srflxStun && t.Bias(1, 4, "udpmuxsrflx")
	g.nIPs = t.Range(1, 2, "nips")
	g.ifaceFilter = t.Bias(1, 3, "filter")
	g.stunTimeout = []time.Duration{500 * time.Millisecond, 2 * time.Second}[t.Choose(2, "stunto")]
	g.twoStunURLs = g.srflxStun && t.Bias(1, 3, "urls2")
	g.parkAllocate = t.Bias(1, 2, "parkalloc")
	g.tcpMux = g.host && t.Bias(1, 4, "tcpmux")
	g.relayTCP = g.relay && t.Bias(1, 3, "relaytcp")
	g.relayTLS = g.relayTCP && t.Bias(1, 3, "relaytls")
	if !g.host && !g.srflxStun && !g.srflxMapped && !g.relay {
		g.host = true
	}
	g.sched = t.Bias(1, 3, "sched")
	g.netRev = g.tcpMux && t.Bias(1, 2, "netrev")
	g.relayCloseErr = g.relay && t.Bias(1, 3, "relaycloseerr")
	if g.srflxMapped {
		g.mappedExt = t.Pick([]int{3, 1, 1, 1}, "mappedext")
	}
	if g.relay {
		g.relayExt = t.Pick([]int{3, 1, 1}, "relayext")
	}
	g.stunWriteBlocks = g.srflxStun && !g.udpMuxSrflx && t.Bias(1, 5, "stunwriteblocks")
	g.ipv6 = t.Bias(1, 4, "ipv6")
	return g
}

// gRig is one agent on one host with a STUN server, a TURN stub and optional muxes.
type gRig struct {
	c         *core.Ctx
	t         *tape.Tape
	cfg       gCfg
	W         *simnet.World
	H         *simnet.Host
	stun      *rig.StunServer
	stun2     *rig.StunServer
	turn      *rig.TurnStub
	ag        *rig.AgentH
	mux       *rig.CountingUDPMux
	tcpMux    *rig.CountingTCPMux
	tcpInner  *ice.TCPMuxDefault
	muxSrflx  *ice.UniversalUDPMuxDefault
	muxSrflxC *rig.CountingUniversalUDPMux
	sch       *sched.Sched
	ownSocks  map[int]bool // harness-owned sockets (mux sockets): not "acquired while gathering"
	steps     int
	trace     bool
	closed    bool // leftAtClose: callers of the agent's goroutines still parked in the simulator (listen, allocate, loop
	// submission) at the moment Close returned
	leftAtClose int
	closeTook   time.Duration // simulated time between the Close call and its return
}

func newGRig(c *core.Ctx, t *tape.Tape, cfg gCfg, extra ...ice.AgentOption) (*gRig, error) {
	g := &gRig{c: c, t: t, cfg: cfg, W: simnet.NewWorld(), ownSocks: map[int]bool{}}
	var ips []string
	for i := 0; i < cfg.nIPs; i++ {
		ips = append(ips, fmt.Sprintf("10.0.1.%d", 10+i))
	}
	if cfg.ipv6 {
		ips = append(ips, "2001:db8:1::10", "fe80::10")
	}
	g.H = g.W.SimpleHost("A", ips...)
	srv := g.W.SimpleHost("S", "203.0.113.5", "203.0.113.6")
	if cfg.stunWriteBlocks {
		g.W.BlockWritesTo = map[netip.AddrPort]bool{netip.MustParseAddrPort("203.0.113.5:3478"): true, netip.MustParseAddrPort("203.0.113.6:3478"): true}
		c.Fault("write-to-stun-server-blocks")
	}
	g.stun = rig.NewStunServer(srv, "203.0.113.5:3478")
	g.stun2 = rig.NewStunServer(srv, "203.0.113.6:3478")
	relayHost := g.W.SimpleHost("R", "203.0.113.9")
	g.turn = &rig.TurnStub{W: g.W, RelayHost: relayHost, RelayIP: "203.0.113.9", ParkAllocate: cfg.parkAllocate}
	if cfg.relayCloseErr {
		g.turn.RelayCloseErr = errInjected
		c.Fault("relay-conn-close-error")
	}

	var types []ice.CandidateType
	if cfg.host {
		types = append(types, ice.CandidateTypeHost)
	}
	if cfg.srflxStun || cfg.srflxMapped {
		types = append(types, ice.CandidateTypeServerReflexive)
	}
	if cfg.relay {
		types = append(types, ice.CandidateTypeRelay)
	}
	nts := []ice.NetworkType{ice.NetworkTypeUDP4}
	if cfg.ipv6 {
		nts = append(nts, ice.NetworkTypeUDP6)
	}
	if cfg.tcpMux {
		nts = append(nts, ice.NetworkTypeTCP4)
	}
	opts := []ice.AgentOption{
		ice.WithNetworkTypes(nts),
		ice.WithCandidateTypes(types),
		ice.WithSTUNGatherTimeout(cfg.stunTimeout),
		g.turn.Option(),
	}
	var urls []*stun.URI
	if cfg.srflxStun {
		u, _ := stun.ParseURI("stun:203.0.113.5:3478")
		urls = append(urls, u)
		if cfg.twoStunURLs {
			u2, _ := stun.ParseURI("stun:203.0.113.6:3478")
			urls = append(urls, u2)
		}
	}
	if cfg.relay {
		u, _ := stun.ParseURI("turn:203.0.113.5:3478?transport=udp")
		if cfg.relayTCP {
			u, _ = stun.ParseURI("turn:203.0.113.5:3478?transport=tcp")
			if cfg.relayTLS {
				// the TLS handshake with the TURN server is pending for as long as the simulator says (the server
				// is silent): only the end of the gathering cycle ends it
				u, _ = stun.ParseURI("turns:203.0.113.5:3478?transport=tcp")
				c.Fault("turns-server-silent-during-handshake")
			}
			g.W.TCPServers = append(g.W.TCPServers, netip.MustParseAddrPort("203.0.113.5:3478"))
			opts = append(opts, ice.WithTURNTransportProtocols([]ice.NetworkType{ice.NetworkTypeTCP4}))
		}
		u.Username, u.Password = "user", "pass"
		urls = append(urls, u)
	}
	if len(urls) > 0 {
		opts = append(opts, ice.WithUrls(urls))
	}
	var rules []ice.AddressRewriteRule
	if cfg.srflxMapped {
		g.H.Alias = netip.MustParseAddr("198.51.100.1")
		rule := ice.AddressRewriteRule{External: []string{"198.51.100.1"}, AsCandidateType: ice.CandidateTypeServerReflexive}
		switch cfg.mappedExt {
		case 1:
			rule.External = []string{"198.51.100.1", "198.51.100.2"}
		case 2:
			rule.External, rule.Local = []string{"fe80::1234", "198.51.100.1"}, "0.0.0.0"
		case 3:
			rule.External, rule.Local = []string{"198.51.100.1", "fe80::1234"}, "0.0.0.0"
		}
		rules = append(rules, rule)
	}
	switch cfg.relayExt {
	case 1:
		rules = append(rules, ice.AddressRewriteRule{External: []string{"203.0.113.77"}, AsCandidateType: ice.CandidateTypeRelay, Mode: ice.AddressRewriteAppend})
	case 2:
		rules = append(rules, ice.AddressRewriteRule{External: []string{"203.0.113.77", "203.0.113.78"}, AsCandidateType: ice.CandidateTypeRelay, Mode: ice.AddressRewriteReplace})
	}
	if len(rules) > 0 {
		opts = append(opts, ice.WithAddressRewriteRules(rules...))
	}
	if cfg.ifaceFilter {
		opts = append(opts, ice.WithInterfaceFilter(func(name string) bool { return name == "eth0" || name == "eth1" || name == "eth3" }))
	}
	if cfg.udpMux {
		s, err := g.H.Net().ListenUDP("udp4", &net.UDPAddr{IP: net.ParseIP("10.0.1.10"), Port: 7000})
		if err != nil {
			return nil, err
		}
		for _, so := range g.W.Sockets() {
			g.ownSocks[so.ID] = true
		}
		m := ice.NewUDPMuxDefault(ice.UDPMuxParams{UDPConn: s, Logger: rig.Quiet().NewLogger("mux"), Net: g.H.Net()})
		g.mux = rig.NewCountingUDPMux(m)
		c.Defer(func() { _ = m.Close() })
		opts = append(opts, ice.WithUDPMux(g.mux))
	}
	if cfg.udpMuxSrflx {
		s, err := g.H.Net().ListenUDP("udp4", &net.UDPAddr{IP: net.ParseIP("10.0.1.10"), Port: 7001})
		if err != nil {
			return nil, err
		}
		for _, so := range g.W.Sockets() {
			g.ownSocks[so.ID] = true
		}
		g.muxSrflx = ice.NewUniversalUDPMuxDefault(ice.UniversalUDPMuxParams{UDPConn: s, Logger: rig.Quiet().NewLogger("muxs"), Net: g.H.Net()})
		m := g.muxSrflx
		c.Defer(func() { _ = m.Close() })
		g.muxSrflxC = rig.NewCountingUniversalUDPMux(g.muxSrflx)
		opts = append(opts, ice.WithUDPMuxSrflx(g.muxSrflxC))
	}
	if cfg.tcpMux {
		l := simstream.Listen(&net.TCPAddr{IP: net.ParseIP("10.0.1.10"), Port: 7002})
		g.tcpInner = ice.NewTCPMuxDefault(ice.TCPMuxParams{Listener: l, Logger: rig.Quiet().NewLogger("tcpmux"), ReadBufferSize: 8})
		g.tcpMux = rig.NewCountingTCPMux(g.tcpInner)
		m := g.tcpInner
		c.Defer(func() { _ = m.Close() })
		opts = append(opts, ice.WithTCPMux(g.tcpMux), ice.WithDisableActiveTCP())
	}
	ice.VerifSeedGlobalRand(1)
	// the order in which the host gatherer walks its (map-backed) set of networks is a run parameter
	ice.VerifSetOrder(func(_ string, keys []string) {
		if cfg.netRev {
			slices.Reverse(keys)
		}
	})
	c.Defer(func() { ice.VerifSetOrder(nil) })
	ag, err := rig.NewAgent("A", g.H, time.Now(), append(opts, extra...)...)
	if err != nil {
		return nil, err
	}
	g.ag = ag
	c.Defer(func() {
		if !g.closed {
			g.closeAgent()
		}
	})
	g.W.ParkListens = true
	if cfg.sched {
		// every submission to the agent's loop parks before it looks at the loop or at its context: the
		// simulator decides when an addCandidate / state change / inbound handler that is about to queue
		// goes on, relative to Restart, Close and the replies
		g.sch = sched.Install(c, []string{"taskloop.Run.entry"})
		g.sch.T = t
	}
	return g, nil
}

// api runs a call of the root goroutine with the park sites off (the root must never park itself).
func (g *gRig) api(fn func()) {
	if g.sch != nil {
		g.sch.Exempt(fn)
		return
	}
	fn()
}

func (g *gRig) nSched() int {
	if g.sch == nil {
		return 0
	}
	return g.sch.NumParked()
}

// pending counts what the simulator could still do: parked callers, datagrams in flight, parked submitters.
func (g *gRig) pending() int { return len(g.W.Parked()) + len(g.W.InFlight()) + g.nSched() }

// closeAgent calls Close from a client goroutine and keeps releasing parked callers until it returns.
func (g *gRig) closeAgent() (returned bool) {
	g.closed = true
	done := make(chan struct{})
	t0 := time.Now()
	go func() {
		_ = g.ag.A.Close()
		g.closeTook = time.Since(t0)
		close(done)
	}()
	for i := 0; i < 200; i++ {
		synctest.Wait()
		select {
		case <-done:
			g.leftAtClose = len(g.W.Parked()) + g.nSched()
			for p := g.W.Parked(); len(p) > 0 || g.nSched() > 0; p = g.W.Parked() {
				if len(p) > 0 {
					g.W.Release(p[0])
				} else {
					g.sch.ReleaseIdx(0)
				}
				synctest.Wait()
			}
			return true
		default:
		}
		if p := g.W.Parked(); len(p) > 0 {
			g.W.Release(p[0])
			continue
		}
		if g.nSched() > 0 {
			g.sch.ReleaseIdx(0)
			continue
		}
		time.Sleep(100 * time.Millisecond)
	}
	return false
}

// finish closes the harness-owned muxes of this rig.
func (g *gRig) finish() {
	if g.mux != nil {
		_ = g.mux.UDPMux.Close()
	}
	if g.muxSrflx != nil {
		_ = g.muxSrflx.Close()
	}
	if g.tcpInner != nil {
		_ = g.tcpInner.Close()
	}
	if g.sch != nil {
		g.sch.Uninstall()
	}
}

var errInjected = errors.New("simulated failure")

// step performs one tape-chosen simulator action; returns false when nothing is pending.
func (g *gRig) step(faults bool) bool {
	synctest.Wait()
	g.steps++
	parked := g.W.Parked()
	pool := g.W.InFlight()
	ns := g.nSched()
	n := len(parked) + len(pool) + ns
	if n == 0 {
		return false
	}
	i := g.t.Choose(n, "gitem")
	if i >= len(parked)+len(pool) {
		site := g.sch.ReleaseIdx(i - len(parked) - len(pool))
		g.log("run %s#%d", site, i-len(parked)-len(pool))
		return true
	}
	disp := 0
	if faults {
		disp = g.t.Pick([]int{8, 2, 1}, "gdisp")
	}
	if i < len(parked) {
		p := parked[i]
		if disp == 1 {
			if p.Kind == "listen" {
				p.Fail = syscall.EADDRINUSE
				if g.t.Bias(1, 2, "addrnotavail") {
					p.Fail = syscall.EADDRNOTAVAIL
				}
			} else {
				p.Fail = errInjected
			}
			g.c.Fault(p.Kind + "-error")
		}
		g.log("release %s %s fail=%v", p.Kind, p.Key, p.Fail != nil)
		g.W.Release(p)
		return true
	}
	d := pool[i-len(parked)]
	switch disp {
	case 1:
		g.W.Drop(d)
		g.c.Fault("stun-drop")
		g.log("drop %s>%s", d.Src, d.Dst)
	case 2:
		g.W.Duplicate(d)
		g.c.Fault("stun-dup")
		g.log("dup %s>%s", d.Src, d.Dst)
	default:
		res, _ := g.W.Deliver(d)
		g.log("deliver %s>%s %s", d.Src, d.Dst, res)
	}
	return true
}

func (g *gRig) log(f string, args ...any) {
	if g.trace {
		g.c.Logf(f, args...)
	}
}

// drain runs until nothing is parked or in flight and gather timeouts have expired.
func (g *gRig) drain(faults bool) {
	for round := 0; round < 4; round++ {
		for i := 0; i < 300 && g.step(faults); i++ {
		}
		time.Sleep(g.cfg.stunTimeout + 100*time.Millisecond)
		synctest.Wait()
		if g.pending() == 0 {
			time.Sleep(g.cfg.stunTimeout + 100*time.Millisecond)
			synctest.Wait()
			if g.pending() == 0 {
				return
			}
		}
	}
}

// agentSockets returns the sockets the agent itself opened (its host or the relay host), open ones only if wantOpen.
func (g *gRig) agentSockets(wantOpen bool) []*simnet.Sock {
	var out []*simnet.Sock
	for _, s := range g.W.Sockets() {
		if s.Tag == "service" || g.ownSocks[s.ID] {
			continue
		}
		if wantOpen && s.Closed() {
			continue
		}
		out = append(out, s)
	}
	sort.Slice(out, func(i, j int) bool { return out[i].ID < out[j].ID })
	return out
}

func describeSocks(ss []*simnet.Sock) []string {
	var out []string
	for _, s := range ss {
		out = append(out, fmt.Sprintf("#%d %s %s@%s closeCalls=%d", s.ID, s.Tag, s.Host().Name, s.Local, s.CloseCalls))
	}
	return out
}
