package checks

import (
	"sync/atomic"
	"testing/synctest"
	"time"

	"github.com/pion/ice/v4"

	"verif/sim/core"
	"verif/sim/rig"
	"verif/sim/simnet"
)

// runC10Queued: two public calls wait, in a known order, behind a busy loop (part 3, continued). Each of them
// is one operation: whatever the second one sees, and whatever the first one returns, is the outcome of whole
// operations in one of the two orders - never a state, or a result, that only half an operation explains.
//   - a credentials getter, then Restart: the getter returns the (ufrag, password) of before or of after, not the
//     ufrag of one and the password of the other;
//   - Restart, then AddRemoteCandidate, on an agent that has a local candidate: afterwards every listed pair is
//     formed from a local and a remote candidate the agent still has.
func runC10Queued(c *core.Ctx) {
	t := c.T
	w := simnet.NewWorld()
	h := w.SimpleHost("A", "10.0.1.10")
	ice.VerifSeedGlobalRand(1)
	ag, err := rig.NewAgent("A", h, time.Now(), ice.WithNetworkTypes([]ice.NetworkType{ice.NetworkTypeUDP4}),
		ice.WithCandidateTypes([]ice.CandidateType{ice.CandidateTypeHost}))
	if err != nil {
		c.Failf("harness/setup", "%v", err)
		return
	}
	c.Defer(func() { _ = ag.A.Close() })
	if err := ag.A.GatherCandidates(); err != nil {
		c.Failf("harness/gather", "%v", err)
		return
	}
	for i := 0; i < 50; i++ {
		synctest.Wait()
		if st, _ := ag.A.GetGatheringState(); st == ice.GatheringStateComplete {
			break
		}
		time.Sleep(10 * time.Millisecond)
	}
	_ = ag.A.SetRemoteCredentials("remoteufrag0", "remotepwd0remotepwd0remotepwd0xx")
	oldU, oldP, _ := ag.A.GetLocalUserCredentials()
	release := make(chan struct{})
	busy := make(chan struct{})
	go func() {
		_ = ag.A.UpdateOptions(func(*ice.Agent) error {
			close(busy)
			<-release
			return nil
		})
	}()
	<-busy
	newU, newP := "newufragnewufrag", "newpwdnewpwdnewpwdnewpwdnewpwd12"
	var d1, d2 atomic.Bool
	wait := func() bool {
		for i := 0; i < 50 && !(d1.Load() && d2.Load()); i++ {
			synctest.Wait()
			time.Sleep(10 * time.Millisecond)
		}
		return d1.Load() && d2.Load()
	}
	switch t.Choose(3, "queued") {
	case 0, 1:
		local := t.Bias(1, 2, "local-credentials")
		var gu, gp string
		go func() {
			if local {
				gu, gp, _ = ag.A.GetLocalUserCredentials()
			} else {
				gu, gp, _ = ag.A.GetRemoteUserCredentials()
			}
			d1.Store(true)
		}()
		synctest.Wait()
		go func() {
			if local {
				_ = ag.A.Restart(newU, newP)
			} else {
				_ = ag.A.SetRemoteCredentials(newU, newP)
			}
			d2.Store(true)
		}()
		synctest.Wait()
		c.Fault("getter-and-writer-queued-behind-busy-loop")
		close(release)
		if !wait() {
			c.Failf("C10/one-shot-call-never-returns", "a credentials getter / its writer did not return after the loop was released")
			return
		}
		bu, bp := oldU, oldP
		if !local {
			bu, bp = "remoteufrag0", "remotepwd0remotepwd0remotepwd0xx"
		}
		if !(gu == bu && gp == bp) && !(gu == newU && gp == newP) {
			c.Failf("C10/getter-returns-torn-credentials", "a credentials getter queued ahead of the call that replaces them returned ufrag %q with password %q: the pair the agent had before was (%q, %q), the pair after is (%q, %q) - it never had the one returned", gu, gp, bu, bp, newU, newP)
			return
		}
		c.Probe("queued-getter-consistent")
	case 2:
		cand, err := ice.NewCandidateHost(&ice.CandidateHostConfig{Network: "udp", Address: "10.0.2.10", Port: 7000, Component: 1})
		if err != nil {
			c.Failf("harness/candidate", "%v", err)
			return
		}
		go func() { _ = ag.A.Restart(newU, newP); d1.Store(true) }()
		synctest.Wait()
		go func() { _ = ag.A.AddRemoteCandidate(cand); d2.Store(true) }()
		synctest.Wait()
		c.Fault("restart-and-addremote-queued-behind-busy-loop")
		close(release)
		if !wait() {
			c.Failf("C10/one-shot-call-never-returns", "Restart / AddRemoteCandidate did not return after the loop was released")
			return
		}
		time.Sleep(100 * time.Millisecond)
		synctest.Wait()
		lc, _ := ag.A.GetLocalCandidates()
		rc, _ := ag.A.GetRemoteCandidates()
		pairs := ag.A.GetCandidatePairsStats()
		if len(pairs) > 0 && (len(lc) == 0 || len(rc) == 0) {
			c.Failf("C10/restart-not-atomic", "Restart, then AddRemoteCandidate (queued in this order): the agent lists %d pair(s) but %d local and %d remote candidates - a pair formed from candidates that half a Restart had not removed yet", len(pairs), len(lc), len(rc))
			return
		}
		if len(lc) != 0 {
			c.Failf("C10/restart-not-atomic", "after Restart (and a queued AddRemoteCandidate) the agent still lists %d local candidate(s) of the ended generation", len(lc))
			return
		}
		c.Probe("queued-restart-atomic")
	}
}

var _ = core.Register
