package checks

import (
	"bytes"
	"fmt"
	"net"
	"sync"
	"sync/atomic"
	"testing/synctest"
	"time"

	"github.com/pion/ice/v4"
	"github.com/pion/stun/v3"

	"verif/sim/core"
	"verif/sim/rig"
	"verif/sim/sched"
	"verif/sim/simstream"
)

// runC15Race: the window between "first frame read" and "connection attached". The handler goroutines of
// accepted connections park right after their first frame and again before AddConn; mux.Close parks
// before it waits. The tape interleaves their release
// with GetConnByUfrag / RemoveConnByUfrag / handle Close / mux Close / more client packets / time.
//
// Oracle (from the statement, nothing about who wins a race):
//   - what the readers of a ufrag's handles get from one client is an in-order PREFIX of what that client
//     sent, starting with its first message, with the client's address - never a packet of a client that
//     named another ufrag, never a duplicate or a gap;
//   - every API call returns; after mux.Close has returned every accepted TCP connection is closed, and
//     (bubble) no goroutine is left;
//   - a connection whose ufrag never had a handle is closed by the mux once the provisional lifetime has
//     passed (with every parked goroutine released).
func runC15Race(c *core.Ctx) {
	t := c.T
	first := 2 * time.Second
	alive := []time.Duration{3 * time.Second, 500 * time.Millisecond}[t.Choose(2, "alive")]
	rb := []int{8, 0, 1}[t.Choose(3, "readbuf")]
	wb := []int{0, 1 << 20}[t.Choose(2, "writebuf")]
	c.Knob("part", "attach-race")
	c.Knob("alive", alive.String())
	c.Knob("readbuf", rb)
	c.Knob("writebuf", wb)
	lip := net.IPv4(10, 0, 0, 1)
	l := simstream.Listen(&net.TCPAddr{IP: lip, Port: 4000})
	mux := ice.NewTCPMuxDefault(ice.TCPMuxParams{Listener: l, Logger: rig.Quiet().NewLogger("c15r"),
		ReadBufferSize: rb, WriteBufferSize: wb, FirstStunBindTimeout: first, AliveDurationForConnFromStun: alive})
	// (the site in the goroutine that queues the first packet is not used here: TCPMuxDefault.Close waits for
	// that goroutine while holding the mux lock, and a goroutine blocked on a mutex is not durably blocked)
	s := sched.Install(c, []string{"tcpmux.handleConn.afterFirstFrame", "tcpmux.handleConn.beforeAddConn", "tcpmux.Close.beforeWait"})

	type client struct {
		id    int
		ufrag string
		addr  *net.TCPAddr
		conn  *simstream.Conn
		srv   *simstream.Conn
		sent  [][]byte
	}
	type handle struct {
		id     int
		ufrag  string
		conn   net.PacketConn
		closed atomic.Bool
		// readerGone: the reader goroutine of this handle has ended (its ReadFrom failed)
		readerGone atomic.Bool
	}
	type rxEv struct {
		handle int
		ufrag  string
		from   string
		data   []byte
	}
	var mu sync.Mutex
	var events []rxEv
	var clients []*client
	var handles []*handle
	everHandle := map[string]bool{}

	// API calls run on helper goroutines: closing a packet connection waits for goroutines that may be parked
	type call struct {
		name string
		done atomic.Bool
	}
	var calls []*call
	goDo := func(name string, f func()) *call {
		cl := &call{name: name}
		calls = append(calls, cl)
		go func() { f(); cl.done.Store(true) }()
		return cl
	}
	var muxClose *call
	c.Defer(func() {
		s.Drain()
		for _, h := range handles {
			if !h.closed.Swap(true) {
				_ = h.conn.Close()
			}
		}
		for _, cl := range clients {
			_ = cl.conn.Close()
		}
		if muxClose == nil {
			_ = mux.Close()
		}
		for i := 0; i < 8; i++ {
			time.Sleep(first + alive)
			synctest.Wait()
		}
	})

	uniq := 0
	nC := t.Range(1, 3, "clients")
	for i := 0; i < nC; i++ {
		cl := &client{id: i, ufrag: c15Ufrags[t.Choose(2, "ufrag")], addr: &net.TCPAddr{IP: net.IPv4(10, 0, 1, byte(10+i)), Port: 5000 + i}}
		// a handle for the ufrag may exist before the client shows up
		if t.Bias(1, 3, "handle-first") {
			if pc, err := mux.GetConnByUfrag(cl.ufrag, false, lip); err == nil {
				h := &handle{id: len(handles), ufrag: cl.ufrag, conn: pc}
				handles = append(handles, h)
				everHandle[cl.ufrag] = true
			}
		}
		conn, err := l.Dial(cl.addr, simstream.DialOpts{})
		if err != nil {
			c.Failf("harness/dial", "%v", err)
			return
		}
		cl.conn, cl.srv = conn, conn.Peer()
		uname := cl.ufrag + ":peer"
		m := tsBinding(stun.MethodBinding, stun.ClassRequest, uint32(i), &uname, 0)
		cl.sent = append(cl.sent, m)
		if _, err := conn.Write(tsEnc(m)); err != nil {
			c.Failf("harness/write", "%v", err)
			return
		}
		clients = append(clients, cl)
		go func() { // drain what the mux writes back (nothing here), notice closure
			buf := make([]byte, 2048)
			for {
				if _, err := conn.Read(buf); err != nil {
					return
				}
			}
		}()
	}
	// At most one reader per ufrag at a time: with two readers on one packet connection the order in which
	// they record what they got says nothing about the order of delivery.
	reading := map[string]*handle{}
	startReader := func(h *handle) {
		reading[h.ufrag] = h
		go func() {
			defer h.readerGone.Store(true)
			buf := make([]byte, 4096)
			for {
				n, from, err := h.conn.ReadFrom(buf)
				if err != nil {
					return
				}
				mu.Lock()
				events = append(events, rxEv{h.id, h.ufrag, from.String(), append([]byte(nil), buf[:n]...)})
				mu.Unlock()
			}
		}()
	}
	ensureReaders := func() {
		for _, h := range handles {
			cur := reading[h.ufrag]
			if cur != nil && !cur.readerGone.Load() {
				continue
			}
			if !h.closed.Load() && !h.readerGone.Load() {
				startReader(h)
			}
		}
	}
	ensureReaders()
	synctest.Wait()

	steps := t.Range(6, 40, "steps")
	for i := 0; i < steps && !c.Failed(); i++ {
		c.Step++
		synctest.Wait()
		ensureReaders()
		switch t.Pick([]int{8, 3, 2, 2, 1, 2, 3}, "act") {
		case 0:
			if s.NumParked() > 0 {
				k := t.Choose(s.NumParked(), "which")
				c.Logf("release %s", s.ReleaseIdx(k))
			}
		case 1:
			uf := c15Ufrags[t.Choose(2, "ufrag")]
			if muxClose != nil {
				continue
			}
			pc, err := mux.GetConnByUfrag(uf, false, lip)
			if err != nil {
				c.Failf("C15/race/getconn-fails", "GetConnByUfrag(%s) on an open mux: %v", uf, err)
				return
			}
			h := &handle{id: len(handles), ufrag: uf, conn: pc}
			handles = append(handles, h)
			everHandle[uf] = true
			c.Logf("GetConnByUfrag(%s) -> h%d", uf, h.id)
		case 2:
			uf := c15Ufrags[t.Choose(2, "ufrag")]
			c.Logf("RemoveConnByUfrag(%s)", uf)
			c.Fault("remove-during-attach")
			goDo("RemoveConnByUfrag("+uf+")", func() { mux.RemoveConnByUfrag(uf) })
		case 3:
			var open []*handle
			for _, h := range handles {
				if !h.closed.Load() {
					open = append(open, h)
				}
			}
			if len(open) > 0 {
				h := open[t.Choose(len(open), "h")]
				h.closed.Store(true)
				c.Logf("close h%d", h.id)
				c.Fault("handle-close-during-attach")
				goDo(fmt.Sprintf("h%d.Close", h.id), func() { _ = h.conn.Close() })
			}
		case 4:
			if muxClose == nil {
				c.Logf("mux.Close()")
				c.Fault("mux-close-during-attach")
				muxClose = goDo("mux.Close", func() { _ = mux.Close() })
			}
		case 5:
			d := []time.Duration{50 * time.Millisecond, alive / 2, alive + 10*time.Millisecond}[t.Choose(3, "dt")]
			c.Logf("advance %v", d)
			time.Sleep(d)
		case 6:
			cl := clients[t.Choose(len(clients), "cl")]
			uniq++
			p := []byte(fmt.Sprintf("c%d-data-%d", cl.id, uniq))
			p[0] = 0x40 // not STUN
			if _, err := cl.conn.Write(tsEnc(p)); err == nil {
				cl.sent = append(cl.sent, p)
			}
		}
	}
	// run-down: release everything, let the provisional lifetime and the first-frame deadline pass
	for i := 0; i < 400; i++ {
		synctest.Wait()
		ensureReaders()
		if s.NumParked() == 0 {
			break
		}
		s.ReleaseIdx(0)
	}
	time.Sleep(first + 2*alive + time.Second)
	synctest.Wait()
	for i := 0; i < 400 && s.NumParked() > 0; i++ {
		s.ReleaseIdx(0)
		synctest.Wait()
	}
	for _, cl := range clients {
		if !everHandle[cl.ufrag] && muxClose == nil && !cl.srv.Closed() {
			c.Failf("C15/race/provisional-connection-never-expires", "client %d named ufrag %s, for which no handle was ever requested; %v after its first frame (provisional lifetime %v) the mux still holds its TCP connection open",
				cl.id, cl.ufrag, c.Now(), alive)
			return
		}
	}
	if muxClose == nil {
		muxClose = goDo("mux.Close", func() { _ = mux.Close() })
	}
	for i := 0; i < 20 && !muxClose.done.Load(); i++ {
		synctest.Wait()
		if s.NumParked() > 0 {
			s.ReleaseIdx(0)
			continue
		}
		time.Sleep(alive)
	}
	synctest.Wait()
	for _, cl := range calls {
		if !cl.done.Load() {
			c.Failf("C15/race/call-never-returns", "%s did not return although every parked goroutine was released and %v passed", cl.name, c.Now())
			return
		}
	}
	for _, cl := range clients {
		if !cl.srv.Closed() {
			c.Failf("C15/race/connection-open-after-close", "mux.Close returned but the TCP connection of client %d (%s) is still open on the mux side", cl.id, cl.addr)
			return
		}
	}
	// delivery oracle
	mu.Lock()
	evs := append([]rxEv(nil), events...)
	mu.Unlock()
	next := map[string]int{}
	byAddr := map[string]*client{}
	for _, cl := range clients {
		byAddr[cl.addr.String()] = cl
	}
	for _, ev := range evs {
		cl := byAddr[ev.from]
		if cl == nil {
			c.Failf("C15/race/packet-from-unknown-address", "handle h%d (%s) read %d bytes from %s, which is no client", ev.handle, ev.ufrag, len(ev.data), ev.from)
			return
		}
		if cl.ufrag != ev.ufrag {
			c.Failf("C15/race/delivered-to-wrong-ufrag", "a packet of client %d (ufrag %s) was delivered to a handle of ufrag %s", cl.id, cl.ufrag, ev.ufrag)
			return
		}
		k := next[ev.from]
		if k >= len(cl.sent) || !bytes.Equal(cl.sent[k], ev.data) {
			c.Failf("C15/race/out-of-order-or-fabricated", "client %d: delivery #%d is %q, expected its packet #%d %q (in-order prefix, first message first)", cl.id, k, trunc(ev.data), k, trunc(func() []byte {
				if k < len(cl.sent) {
					return cl.sent[k]
				}
				return nil
			}()))
			return
		}
		next[ev.from] = k + 1
	}
	for _, cl := range clients {
		if next[cl.addr.String()] > 0 {
			c.Probe("race-client-delivered")
		} else {
			c.Probe("race-client-dropped")
		}
	}
	for site, n := range s.Parks {
		if n > 0 {
			c.Probe("site:" + site)
		}
	}
	c.MarkNontrivial()
}
