package checks

import (
	"fmt"
	"net/netip"
	"time"

	"github.com/pion/ice/v4"
	"github.com/pion/stun/v3"

	"verif/sim/core"
	"verif/sim/rig"
)

// runC10Owner (part 4): "agent state is only touched serially". The functions of the agent that own its
// candidate tables, checklist, selection and pending transactions report every call (Note site "agent.state",
// build tag verif); the monitor looks at the caller's stack: such a call is legitimate only under the task
// loop's runLoop (a task or the close callback). A whole session runs under it - gathering, trickle,
// connectivity checks under faults, application data both ways, foreign inbound traffic of every kind (Binding
// requests, indications, responses, junk, plain data; from selected, known and unknown sources; hitting and
// missing the per-candidate source cache), public API calls, renomination, Restart, failure and Close - and
// one call from any other goroutine (a receive loop, a timer goroutine, an API caller) is a violation, whether
// or not a conflicting access happens to run at the same time.
func runC10Owner(c *core.Ctx) {
	notes := rig.InstallNotes(c)
	t := c.T
	ci := []time.Duration{50 * time.Millisecond, 200 * time.Millisecond}[t.Choose(2, "ci")]
	liteB := t.Bias(1, 5, "liteB")
	opts := func(lite bool) []ice.AgentOption {
		o := []ice.AgentOption{ice.WithCheckInterval(ci), ice.WithKeepaliveInterval(300 * time.Millisecond),
			ice.WithSrflxAcceptanceMinWait(0), ice.WithMaxBindingRequests(100),
			ice.WithDisconnectedTimeout(2 * time.Second), ice.WithFailedTimeout(2 * time.Second),
			ice.WithRenomination(ice.DefaultNominationValueGenerator())}
		if lite {
			return append(o, ice.WithICELite(true), ice.WithCandidateTypes([]ice.CandidateType{ice.CandidateTypeHost}))
		}
		return append(o, ice.WithCandidateTypes([]ice.CandidateType{ice.CandidateTypeHost, ice.CandidateTypeServerReflexive}))
	}
	nA := t.Range(1, 2, "nA")
	cfg := rig.DuoCfg{AddrsA: c01Addrs("10.0.1", nA), AddrsB: []string{"10.0.2.10"}, OptsA: opts(false), OptsB: opts(liteB)}
	if t.Bias(1, 2, "aliasA") {
		cfg.AliasA = "198.51.100.1"
	}
	d, err := rig.NewDuo(c, cfg)
	if err != nil {
		c.Failf("harness/setup", "%v", err)
		return
	}
	c.MarkNontrivial()
	A, B := d.A, d.B
	check := func(where string) bool {
		if off, _ := notes.OffLoop(); off != "" {
			c.Failf("C10/agent-state-touched-off-loop", "%s: a function that owns agent state ran outside the agent's task loop: %s", where, off)
			return false
		}
		return !c.Failed()
	}
	for _, ag := range []*rig.AgentH{A, B} {
		if err := d.Gather(ag); err != nil {
			c.Failf("harness/gather", "%v", err)
			return
		}
	}
	signalled := map[string]bool{}
	signal := func(all bool) {
		for _, pr := range [][2]*rig.AgentH{{A, B}, {B, A}} {
			for _, cand := range pr[0].LocalCands() {
				k := pr[0].Name + cand.Marshal()
				if signalled[k] || (!all && t.Bias(1, 2, "hold-candidate")) {
					continue
				}
				signalled[k] = true
				_ = d.Signal(pr[0], pr[1], cand)
			}
		}
	}
	signal(false)
	d.S.Settle()
	A.Conn, _ = A.A.StartDial(B.Ufrag, B.Pwd)
	B.Conn, _ = B.A.StartAccept(A.Ufrag, A.Pwd)
	for _, ag := range []*rig.AgentH{A, B} {
		if conn := ag.Conn; conn != nil {
			go func() {
				buf := make([]byte, 2048)
				for {
					if _, err := conn.Read(buf); err != nil {
						return
					}
				}
			}()
		}
	}
	d.S.DropW, d.S.DupW, d.S.ReorderW, d.S.AdvanceW = 6, 4, 10, 25
	seq := uint32(0)
	inject := func() {
		to, from := A, B
		if t.Bias(1, 2, "toB") {
			to, from = B, A
		}
		locals := to.LocalCands()
		if len(locals) == 0 {
			return
		}
		dst := rig.CandAP(locals[t.Choose(len(locals), "dst")])
		src := netip.AddrPortFrom(netip.MustParseAddr("192.0.2.99"), uint16(43000+t.Choose(3, "p")))
		srcKind := "unknown"
		switch t.Pick([]int{2, 3, 2}, "src") {
		case 0:
			if _, r, ok := to.SelectedPair(); ok {
				src, srcKind = r, "selected"
			}
		case 1:
			if rc := to.RemoteCands(); len(rc) > 0 {
				src, srcKind = rig.CandAP(rc[t.Choose(len(rc), "which")]), "known"
			}
		}
		seq++
		var payload []byte
		kind := t.Pick([]int{3, 2, 2, 1, 2, 1}, "inkind")
		switch kind {
		case 0: // keepalive of a non-pion peer
			payload = rig.MsgSpec{Class: stun.ClassIndication, Method: stun.MethodBinding, Seq: seq, Integrity: rig.IntAbsent}.Build()
		case 1: // authentic-looking check (right credentials): from an unknown source it creates a peer-reflexive candidate
			payload = rig.MsgSpec{Class: stun.ClassRequest, Method: stun.MethodBinding, Seq: seq,
				Username: rig.Str(to.Ufrag + ":" + from.Ufrag), Priority: rig.U32(1845501695), Controlled: rig.U64(7), Key: to.Pwd}.Build()
		case 2: // wrong password
			payload = rig.MsgSpec{Class: stun.ClassRequest, Method: stun.MethodBinding, Seq: seq,
				Username: rig.Str(to.Ufrag + ":" + from.Ufrag), Priority: rig.U32(99), Controlling: rig.U64(7), Key: "wrong-password-wrong-pwd"}.Build()
		case 3: // a response nobody waits for
			x := src
			payload = rig.MsgSpec{Class: stun.ClassSuccessResponse, Method: stun.MethodBinding, Seq: seq, XorAddr: &x, Key: from.Pwd}.Build()
		case 4:
			payload = []byte(fmt.Sprintf("\x80data-%05d", seq))
		default: // magic cookie in place, undecodable
			payload = rig.MsgSpec{Class: stun.ClassRequest, Method: stun.MethodBinding, Seq: seq, Username: rig.Str("x:y"), Integrity: rig.IntAbsent}.Build()
			payload[3] += 8
		}
		c.Fault(fmt.Sprintf("foreign-inbound:%s/%d", srcKind, kind))
		d.S.Deliver(d.W.Inject(src, dst, payload, "c10 foreign"))
	}
	restarted := false
	steps := t.Range(30, 80, "steps")
	for i := 0; i < steps; i++ {
		switch t.Pick([]int{50, 14, 6, 6, 6, 3, 2, 2}, "act") {
		case 0:
			d.S.StepFaulty()
		case 1:
			inject()
		case 2:
			signal(true)
			d.S.Settle()
		case 3:
			ag := []*rig.AgentH{A, B}[t.Choose(2, "writer")]
			if ag.Conn != nil {
				_, _ = ag.Conn.Write([]byte(fmt.Sprintf("\x80app-%03d", i)))
			}
		case 4:
			ag := []*rig.AgentH{A, B}[t.Choose(2, "api")]
			switch t.Choose(5, "getter") {
			case 0:
				_ = ag.A.GetCandidatePairsStats()
			case 1:
				_, _ = ag.A.GetSelectedCandidatePairStats()
			case 2:
				_, _ = ag.A.GetRemoteCandidates()
			case 3:
				_ = ag.A.GetLocalCandidatesStats()
				_ = ag.A.GetRemoteCandidatesStats()
			case 4:
				if ag.Conn != nil {
					_ = ag.Conn.GetCandidatePairsInfo()
				}
			}
		case 5:
			l, _ := A.A.GetLocalCandidates()
			r, _ := A.A.GetRemoteCandidates()
			if len(l) > 0 && len(r) > 0 {
				_ = A.A.RenominateCandidate(l[t.Choose(len(l), "l")], r[t.Choose(len(r), "r")])
				c.Probe("renominate")
			}
		case 6:
			if !restarted {
				restarted = true
				ok := true
				for _, ag := range []*rig.AgentH{A, B} {
					uf, pw := rig.Creds(ag.Name, 1)
					if err := ag.A.Restart(uf, pw); err != nil {
						ok = false
						break
					}
					ag.Ufrag, ag.Pwd = uf, pw
					d.S.Settle()
				}
				if ok {
					for _, ag := range []*rig.AgentH{A, B} {
						if err := d.Gather(ag); err != nil {
							c.Failf("harness/gather", "%v", err)
							return
						}
					}
					_ = A.A.SetRemoteCredentials(B.Ufrag, B.Pwd)
					_ = B.A.SetRemoteCredentials(A.Ufrag, A.Pwd)
					for k := range signalled {
						delete(signalled, k)
					}
					signal(false)
					c.Fault("restart")
				}
			}
		case 7:
			// silence: long enough for disconnected / failed
			d.S.Advance([]time.Duration{time.Second, 3 * time.Second, 5 * time.Second}[t.Choose(3, "silence")])
			c.Fault("silence")
		}
		if !check(fmt.Sprintf("step %d", i)) {
			return
		}
	}
	_ = A.A.Close()
	_ = B.A.Close()
	d.S.Settle()
	if !check("after Close") {
		return
	}
	if _, n := notes.OffLoop(); n > 0 {
		c.Probe("state-touches-inspected")
		c.AddEvals(n)
	} else {
		c.Probe("ownership-sites-absent")
	}
}

var _ = core.Register
