package checks

import (
	"fmt"
	"testing/synctest"
	"time"

	"verif/sim/core"
)

// runC08Gather: Close while gathering is under way (all gather configurations of the C09 rig: host, srflx,
// mapped, relay over UDP/TCP, UDP/TCP mux; listens, STUN exchanges and TURN allocations held by the
// simulator), optionally after a Restart that cancelled a cycle. Close must return, and when it has
// returned no goroutine of the agent may still sit in a listen, an allocation or a loop submission, and no
// socket of the agent may be open.
func runC08Gather(c *core.Ctx) {
	t := c.T
	cfg := drawGCfg(t)
	faults := t.Bias(1, 2, "gfaults")
	c.Knob("scenario", "close-during-gathering")
	c.Knob("cfg", cfg.String())
	g, err := newGRig(c, t, cfg)
	if err != nil {
		c.Failf("harness/setup", "%v", err)
		return
	}
	var gerr error
	g.api(func() { gerr = g.ag.A.GatherCandidates() })
	if gerr != nil {
		c.Failf("harness/gather", "%v", gerr)
		return
	}
	n := t.Range(0, 12, "steps-before")
	for i := 0; i < n && g.step(faults); i++ {
	}
	restarted := t.Bias(1, 2, "restart-first")
	if restarted {
		var rerr error
		g.api(func() { rerr = g.ag.A.Restart("", "") })
		if rerr != nil {
			c.Failf("harness/restart", "%v", rerr)
			return
		}
		c.Fault("restart-before-close")
		m := t.Range(0, 4, "steps-between")
		for i := 0; i < m && g.step(faults); i++ {
		}
	}
	where := fmt.Sprintf("cfg{%s} steps=%d restart=%v", cfg, n, restarted)
	c.Fault("close-during-gathering")
	if !g.closeAgent() {
		c.Failf("C08/close-did-not-return", "%s: Close did not return although the simulator kept serving the parked callers", where)
		return
	}
	if g.closeTook > time.Second {
		c.Failf("C08/close-did-not-return", "%s: Close returned only after %v of simulated time (the simulator served every parked caller at once): it waited for something that only a timeout ends", where, g.closeTook)
		return
	}
	if g.leftAtClose > 0 {
		c.Failf("C08/goroutine-running-after-close", "%s: Close returned while %d call(s) of the agent's gathering goroutines were still pending (listen / allocate / loop submission)", where, g.leftAtClose)
		return
	}
	synctest.Wait()
	if open := g.agentSockets(true); len(open) > 0 {
		c.Failf("C08/socket-open-after-close", "%s: %d socket(s) still open after Close returned: %v", where, len(open), describeSocks(open))
		return
	}
	g.drain(false)
	g.finish()
	c.Probe("closed-during-gathering")
	c.MarkNontrivial()
}
