package checks

import (
	"bytes"
	"context"
	"errors"
	"fmt"
	"net"
	"net/netip"
	"runtime"
	"strings"
	"sync"
	"sync/atomic"
	"testing/synctest"
	"time"

	"github.com/pion/ice/v4"
	"github.com/pion/stun/v3"

	"verif/sim/core"
	"verif/sim/rig"
	"verif/sim/sched"
	"verif/sim/simnet"
	"verif/sim/simstream"
)

func init() {
	core.Register(&core.Spec{ID: "C13", Fn: runC13, HangIsViolation: true})
}

// C13: (a) reference counting of mux handles, observed by behaviour only (UDP mux over simnet, TCP mux over
// simstream); (b) the write-abort protocol of the shared UDP socket under the seeded goroutine scheduler.
func runC13(c *core.Ctx) {
	switch c.T.Pick([]int{2, 1, 5, 2}, "part") {
	case 0:
		c.Knob("part", "refcount-udp")
		runC13RefUDP(c)
	case 1:
		c.Knob("part", "refcount-tcp")
		runC13RefTCP(c)
	case 3:
		c.Knob("part", "refcount-udp-scheduled")
		runC13RefSched(c)
	default:
		c.Knob("part", "write-abort")
		runC13Abort(c)
	}
}

// ---------------------------------------------------------------------------------------------------
// (a) refcount semantics

// c13Read is one ReadFrom call running on its own goroutine.
type c13Read struct {
	done atomic.Bool
	data []byte
	from string
	err  error
}

type c13H struct {
	name   string
	conn   net.PacketConn
	closed bool
	rd     *c13Read // pending read, if any
	useAP  bool     // read through ReadFromAddrPort when the handle offers it
}

func c13StartRead(h *c13H) *c13Read {
	r := &c13Read{}
	if ap, ok := h.conn.(ice.AddrPortReaderWriter); ok && h.useAP {
		// the allocation-free path a candidate's receive loop takes when the mux socket offers it
		go func() {
			buf := make([]byte, 2048)
			n, from, err := ap.ReadFromAddrPort(buf)
			r.data, r.err = append([]byte(nil), buf[:n]...), err
			if from.IsValid() {
				r.from = from.String()
			}
			r.done.Store(true)
		}()
		return r
	}
	go func() {
		buf := make([]byte, 2048)
		n, from, err := h.conn.ReadFrom(buf)
		r.data, r.err = append([]byte(nil), buf[:n]...), err
		if from != nil {
			r.from = from.String()
		}
		r.done.Store(true)
	}()
	return r
}

// c13Refcount is the transport-independent part of (a). The callbacks send a datagram towards the ufrag's
// connection (returning its payload), check that a handle's write reached the peer, and tell whether the
// transport shows that the underlying connection was released.
type c13Refcount struct {
	c        *core.Ctx
	kind     string
	get      func() (net.PacketConn, error)
	inbound  func(tag string) []byte
	writeOK  func(h *c13H) (sent bool, err error)
	released func() (bool, string) // transport-level evidence of release ("", if none available)
	// dropsWhenReleased: a datagram for the ufrag sent while no connection exists is dropped (UDP). The TCP
	// mux by design creates a provisional connection for an unknown ufrag, so nothing is asserted there.
	dropsWhenReleased bool
}

func (r *c13Refcount) run() {
	c, t := r.c, r.c.T
	k := t.Range(2, 4, "handles")
	c.Knob("handles", k)
	var hs []*c13H
	for i := 0; i < k; i++ {
		conn, err := r.get()
		if err != nil {
			c.Failf("harness/c13-get", "%v", err)
			return
		}
		hs = append(hs, &c13H{name: fmt.Sprintf("h%d", i), conn: conn, useAP: t.Bias(1, 2, "addrport-reads")})
		if _, ok := conn.(ice.AddrPortReaderWriter); ok && hs[i].useAP {
			c.Probe("handle-reads-via-addrport")
		}
		if t.Bias(1, 3, "future-read-deadline") {
			// a user that bounds its reads: every read of this handle carries a deadline far in the future
			_ = conn.SetReadDeadline(time.Now().Add(time.Hour))
			c.Fault("handle-read-deadline-in-the-future")
		}
	}
	c.Defer(func() {
		for _, h := range hs {
			_ = h.conn.Close()
		}
		synctest.Wait()
	})
	open := func() []*c13H {
		var out []*c13H
		for _, h := range hs {
			if !h.closed {
				out = append(out, h)
			}
		}
		return out
	}
	// Invariant between steps: every open handle has exactly one ReadFrom pending. Which of several readers
	// of one connection gets a datagram is up to the Go runtime; with the invariant the state afterwards does
	// not depend on it.
	// receive checks that a datagram for the ufrag reaches exactly one of the open handles.
	receive := func(when string) bool {
		var waiting []*c13H
		for _, h := range open() {
			if h.rd == nil {
				h.rd = c13StartRead(h)
			}
			waiting = append(waiting, h)
		}
		synctest.Wait()
		for _, h := range waiting {
			if h.rd.done.Load() {
				c.Failf("C13/"+r.kind+"/sibling-read-disturbed", "%s: the pending ReadFrom of open handle %s returned (%d bytes, err=%v) although nothing was sent to it", when, h.name, len(h.rd.data), h.rd.err)
				return false
			}
		}
		want := r.inbound(when)
		synctest.Wait()
		got := 0
		for _, h := range waiting {
			if !h.rd.done.Load() {
				continue
			}
			if h.rd.err != nil || !bytes.Equal(h.rd.data, want) {
				c.Failf("C13/"+r.kind+"/sibling-receive-fails", "%s: ReadFrom of open handle %s returned %d bytes, err=%v instead of the datagram sent to its ufrag", when, h.name, len(h.rd.data), h.rd.err)
				return false
			}
			got++
			h.rd = c13StartRead(h)
		}
		if got != 1 {
			c.Failf("C13/"+r.kind+"/sibling-receive-fails", "%s: a datagram for the ufrag was received by %d of the %d open handles waiting in ReadFrom", when, got, len(waiting))
			return false
		}
		c.Logf("%s: received by an open handle", when)
		return true
	}
	if !receive("before any close") {
		return
	}
	for len(open()) > 0 {
		c.Step++
		op := open()
		v := op[t.Choose(len(op), "victim")]
		if v.rd == nil {
			v.rd = c13StartRead(v)
			synctest.Wait()
		}
		last := len(op) == 1
		if !last && t.Bias(1, 3, "sibling-writes-first") {
			if sent, err := r.writeOK(op[(t.Choose(len(op), "w"))]); err != nil || !sent {
				c.Failf("C13/"+r.kind+"/sibling-write-fails", "write through an open handle failed before any close: sent=%v err=%v", sent, err)
				return
			}
		}
		if t.Bias(1, 3, "abort-then-close") {
			// the way a candidate gives up its handle (candidateBase.abortIO): abort pending I/O of this user
			// by a deadline in the past, then close
			_ = v.conn.SetDeadline(time.Now())
			c.Fault("handle-deadline-now-before-close")
			if !last && t.Bias(1, 2, "sibling-writes-in-the-window") {
				// a sibling sends while the closing handle's deadline sits on the shared connection: that one write
				// may time out - it must not cost the sibling the connection (checked after the Close below)
				var sib *c13H
				for _, h := range op {
					if h != v {
						sib = h
					}
				}
				if sib != nil {
					_, _ = r.writeOK(sib) // to the transport's own peer address; the outcome of this one write is not judged
					synctest.Wait()
					c.Fault("sibling-write-under-foreign-deadline")
				}
			}
		}
		err := v.conn.Close()
		v.closed = true
		c.Logf("close %s (last=%v) err=%v", v.name, last, err)
		synctest.Wait()
		if v.rd != nil {
			if !v.rd.done.Load() {
				c.Failf("C13/"+r.kind+"/closed-handle-read-still-blocked", "ReadFrom pending on %s did not return after %s.Close()", v.name, v.name)
				return
			}
			if v.rd.err == nil {
				c.Failf("C13/"+r.kind+"/closed-handle-read-succeeds", "ReadFrom pending on %s returned %d bytes without error after Close although nothing was sent", v.name, len(v.rd.data))
				return
			}
			c.Probe("pending-read-failed-by-close")
			v.rd = nil
		}
		// future I/O of the closed handle fails
		if _, err := v.conn.WriteTo([]byte("late"), c13Peer()); err == nil {
			c.Failf("C13/"+r.kind+"/closed-handle-write-succeeds", "WriteTo on %s succeeded after its Close", v.name)
			return
		}
		late := c13StartRead(v)
		synctest.Wait()
		if !late.done.Load() || late.err == nil {
			c.Failf("C13/"+r.kind+"/closed-handle-read-not-failing", "ReadFrom on %s after its Close: returned=%v err=%v", v.name, late.done.Load(), late.err)
			// let the stray read end with the run
			return
		}
		for i, n := 0, t.Choose(3, "reclose"); i < n; i++ {
			func() {
				defer func() {
					if p := recover(); p != nil {
						c.Failf("C13/"+r.kind+"/repeated-close-panics", "Close #%d on %s panicked: %v", i+2, v.name, p)
					}
				}()
				_ = v.conn.Close()
			}()
			c.Probe("repeated-close")
		}
		synctest.Wait()
		if c.Failed() {
			return
		}
		if !last {
			// the underlying connection must still be there: every sibling sends, a sibling receives
			if rel, why := r.released(); rel {
				c.Failf("C13/"+r.kind+"/underlying-closed-early", "after closing %s (%d handles still open) the underlying connection is gone: %s", v.name, len(open()), why)
				return
			}
			for _, h := range open() {
				if sent, err := r.writeOK(h); err != nil || !sent {
					c.Failf("C13/"+r.kind+"/sibling-write-fails", "after closing %s, WriteTo on open sibling %s: sent=%v err=%v", v.name, h.name, sent, err)
					return
				}
			}
			if !receive("after closing " + v.name) {
				return
			}
			c.Probe("siblings-usable-after-close")
			if t.Bias(1, 2, "queued-packet") && !r.stealTest(v, open()) {
				return
			}
			continue
		}
		// last handle closed: the underlying connection is released, exactly now
		if rel, why := r.released(); !rel && why != "" {
			c.Failf("C13/"+r.kind+"/underlying-not-closed", "all %d handles are closed but the underlying connection is still there: %s", k, why)
			return
		}
		c.Probe("last-close")
	}
	// a datagram for the ufrag is dropped now; a fresh GetConn yields a new, empty connection
	var lost []byte
	if r.dropsWhenReleased {
		lost = r.inbound("after last close")
		synctest.Wait()
	}
	conn, err := r.get()
	if err != nil {
		c.Failf("C13/"+r.kind+"/reget-fails", "GetConn after the last handle was closed: %v", err)
		return
	}
	nh := &c13H{name: "fresh", conn: conn}
	hs = append(hs, nh)
	nh.rd = c13StartRead(nh)
	synctest.Wait()
	if nh.rd.done.Load() {
		if lost != nil && bytes.Equal(nh.rd.data, lost) {
			c.Failf("C13/"+r.kind+"/released-connection-still-receiving", "a datagram sent after the last handle was closed was queued and handed to the next GetConn of the ufrag")
		} else {
			c.Failf("C13/"+r.kind+"/fresh-connection-not-empty", "ReadFrom on a fresh handle returned at once: %d bytes err=%v", len(nh.rd.data), nh.rd.err)
		}
		return
	}
	want := r.inbound("fresh connection")
	synctest.Wait()
	if !nh.rd.done.Load() || nh.rd.err != nil || !bytes.Equal(nh.rd.data, want) {
		c.Failf("C13/"+r.kind+"/fresh-connection-unusable", "the connection obtained after a full release does not receive: returned=%v err=%v", nh.rd.done.Load(), nh.rd.err)
		return
	}
	if sent, err := r.writeOK(nh); err != nil || !sent {
		c.Failf("C13/"+r.kind+"/fresh-connection-unusable", "the connection obtained after a full release does not send: sent=%v err=%v", sent, err)
		return
	}
	c.Probe("fresh-connection-after-release")
}

// stealTest: with a datagram QUEUED on the shared connection (every open sibling's pending read has been
// served, one more datagram arrived), a read on the closed handle must fail and must not take the datagram
// away from the siblings; the next read of an open sibling gets it.
func (r *c13Refcount) stealTest(v *c13H, open []*c13H) bool {
	c := r.c
	var sent [][]byte
	for i := 0; i <= len(open); i++ {
		sent = append(sent, r.inbound(fmt.Sprintf("burst %d", i)))
		synctest.Wait()
	}
	got := map[string]bool{}
	for _, h := range open {
		if h.rd == nil || !h.rd.done.Load() || h.rd.err != nil {
			c.Failf("C13/"+r.kind+"/sibling-receive-fails", "burst of %d datagrams for the ufrag: the pending ReadFrom of open handle %s did not return one of them", len(sent), h.name)
			return false
		}
		got[string(h.rd.data)] = true
		h.rd = nil
	}
	var queued []byte
	for _, p := range sent {
		if !got[string(p)] {
			if queued != nil {
				c.Failf("C13/"+r.kind+"/sibling-receive-fails", "burst of %d datagrams: more than one was not handed to the %d waiting readers", len(sent), len(open))
				return false
			}
			queued = p
		}
	}
	if queued == nil {
		c.Failf("harness/c13-burst", "no datagram left queued")
		return false
	}
	late := c13StartRead(v)
	synctest.Wait()
	if late.done.Load() && late.err == nil {
		c.Failf("C13/"+r.kind+"/closed-handle-read-takes-sibling-packet", "a read on the closed handle %s returned %d bytes (the datagram queued for its open siblings: %v)", v.name, len(late.data), bytes.Equal(late.data, queued))
		return false
	}
	if !late.done.Load() {
		c.Failf("C13/"+r.kind+"/closed-handle-read-not-failing", "a read on the closed handle %s blocks although a datagram is queued", v.name)
		return false
	}
	n := 0
	for _, h := range open {
		h.rd = c13StartRead(h)
		synctest.Wait()
		if h.rd.done.Load() {
			if h.rd.err != nil || !bytes.Equal(h.rd.data, queued) {
				c.Failf("C13/"+r.kind+"/sibling-receive-fails", "the datagram queued on the connection was not handed to open handle %s intact (err=%v)", h.name, h.rd.err)
				return false
			}
			n++
			h.rd = c13StartRead(h)
		}
	}
	if n != 1 {
		c.Failf("C13/"+r.kind+"/sibling-receive-fails", "the datagram queued on the connection reached %d of the open handles after a read on the closed sibling", n)
		return false
	}
	c.Probe("queued-packet-survives-read-on-closed-sibling")
	return true
}

func c13Peer() *net.UDPAddr { return &net.UDPAddr{IP: net.IPv4(192, 0, 2, 9).To4(), Port: 4444} }

func runC13RefUDP(c *core.Ctx) {
	w := newC12World(c)
	if w == nil {
		return
	}
	w.nU = 2
	fam := 0
	if w.dual && c.T.Bias(1, 3, "v6") {
		fam = 1
	}
	// a bystander with another ufrag must not notice anything
	by, err := w.mux.GetConn(c12Ufrags[1], w.localAddr(0))
	if err != nil {
		c.Failf("harness/c13-get", "%v", err)
		return
	}
	bh := &c13H{name: "bystander", conn: by}
	c.Defer(func() { _ = by.Close() })
	bh.rd = c13StartRead(bh)
	src := 0
	if fam == 1 {
		src = 3
	}
	sentSeq := 0
	r := &c13Refcount{c: c, kind: "udp",
		get: func() (net.PacketConn, error) { return w.mux.GetConn(c12Ufrags[0], w.localAddr(fam)) },
		inbound: func(tag string) []byte {
			p := w.mkPayload(c12KUser, 0, 1, src, false)
			w.arrive(p)
			return p.bytes
		},
		writeOK: func(h *c13H) (bool, error) {
			sentSeq++
			pl := []byte(fmt.Sprintf("c13-out-%d", sentSeq))
			dst := net.UDPAddrFromAddrPort(c12Remotes[src])
			_, err := h.conn.WriteTo(pl, dst)
			synctest.Wait()
			found := false
			for _, d := range w.w.InFlight() {
				if bytes.Equal(d.Payload, pl) && d.Dst == c12Remotes[src] {
					found = true
				}
				w.w.Drop(d)
			}
			return found, err
		},
		released:          func() (bool, string) { return false, "" },
		dropsWhenReleased: true,
	}
	r.run()
	if c.Failed() {
		return
	}
	synctest.Wait()
	if bh.rd.done.Load() {
		c.Failf("C13/udp/bystander-disturbed", "the pending ReadFrom of a connection of another ufrag returned (err=%v) while handles of the first ufrag were closed", bh.rd.err)
		return
	}
	p := w.mkPayload(c12KUser, 1, 0, 1, false)
	w.arrive(p)
	synctest.Wait()
	if !bh.rd.done.Load() || bh.rd.err != nil || !bytes.Equal(bh.rd.data, p.bytes) {
		c.Failf("C13/udp/bystander-disturbed", "the connection of another ufrag no longer receives: returned=%v err=%v", bh.rd.done.Load(), bh.rd.err)
	}
}

func runC13RefTCP(c *core.Ctx) {
	t := c.T
	lip := net.IPv4(10, 0, 0, 1).To4()
	l := simstream.Listen(&net.TCPAddr{IP: lip, Port: 4000})
	wb := []int{0, 1 << 20}[t.Choose(2, "writebuf")]
	c.Knob("writebuf", wb)
	alive := 2 * time.Second
	mux := ice.NewTCPMuxDefault(ice.TCPMuxParams{Listener: l, Logger: rig.Quiet().NewLogger("c13"), ReadBufferSize: 8, WriteBufferSize: wb,
		AliveDurationForConnFromStun: alive})
	var clients []*simstream.Conn
	c.Defer(func() {
		for _, cl := range clients {
			_ = cl.Close()
		}
		done := make(chan struct{})
		go func() { _ = mux.Close(); close(done) }()
		for i := 0; i < 10; i++ {
			synctest.Wait()
			select {
			case <-done:
				return
			default:
				time.Sleep(31 * time.Second)
			}
		}
	})
	seq := uint32(0)
	var cur *simstream.Conn // the client connection feeding the current incarnation
	dial := func() *simstream.Conn {
		seq++
		cl, err := l.Dial(&net.TCPAddr{IP: net.IPv4(192, 0, 2, byte(seq)).To4(), Port: 7000 + int(seq)}, simstream.DialOpts{})
		if err != nil {
			c.Failf("harness/c13-dial", "%v", err)
			return nil
		}
		clients = append(clients, cl)
		return cl
	}
	uname := "ufa:peer"
	// In half of the runs a second TCP connection of another remote is attached to the same ufrag first, and
	// arming a write deadline fails on it (socket fault): what a closing handle pushed down to the streams its
	// siblings keep using must still be taken back from the healthy ones.
	auxWanted := t.Bias(1, 2, "aux-stream-wdl-fault")
	c.Knob("auxStreamWithDeadlineFault", auxWanted)
	firstGet := true
	// In a third of the runs the peer is first: its STUN request creates a provisional connection (with a
	// lifetime) that the first GetConnByUfrag adopts; further streams join afterwards and the provisional
	// lifetime passes - the adopted connection lives as long as a handle is open.
	peerFirst := t.Bias(1, 3, "peer-first")
	c.Knob("peerFirst", peerFirst)
	var early []byte
	if peerFirst {
		if cur = dial(); cur == nil {
			return
		}
		seq++
		early = tsBinding(stun.MethodBinding, stun.ClassRequest, seq, &uname, 0)
		_, _ = cur.Write(tsEnc(early))
		synctest.Wait()
		c.Fault("provisional-connection-adopted")
	}
	// clientGot reads what the mux wrote to the client so far (non-blocking view of its receive queue)
	r := &c13Refcount{c: c, kind: "tcp",
		get: func() (net.PacketConn, error) {
			pc, err := mux.GetConnByUfrag("ufa", false, lip)
			if err == nil && firstGet && early != nil {
				buf := make([]byte, 2048)
				if n, _, rerr := pc.ReadFrom(buf); rerr != nil || !bytes.Equal(buf[:n], early) {
					c.Failf("harness/c13-early", "the request that created the provisional connection was not delivered after adoption: n=%d err=%v", n, rerr)
					return pc, err
				}
			}
			if err == nil && firstGet && peerFirst {
				defer func() {
					// the provisional lifetime passes with the handle open (and, with the auxiliary stream, after
					// another TCP connection joined the adopted connection)
					time.Sleep(alive + time.Second)
					synctest.Wait()
				}()
			}
			if err != nil || !firstGet || !auxWanted {
				firstGet = false
				return pc, err
			}
			firstGet = false
			aux := dial()
			if aux == nil {
				return pc, err
			}
			seq++
			first := tsBinding(stun.MethodBinding, stun.ClassRequest, seq, &uname, 0)
			_, _ = aux.Write(tsEnc(first))
			synctest.Wait()
			buf := make([]byte, 2048)
			if n, _, rerr := pc.ReadFrom(buf); rerr != nil || !bytes.Equal(buf[:n], first) {
				c.Failf("harness/c13-aux", "the first frame of the auxiliary stream was not delivered: n=%d err=%v", n, rerr)
				return pc, err
			}
			if t.Bias(1, 2, "aux-refuses-clearing-too") {
				// the stream refuses the call altogether (arming and clearing): the healthy streams the mux walks
				// after it must still get their deadline armed and, above all, taken back
				aux.Peer().FailAllWriteDeadlineCalls(errors.New("injected: SetWriteDeadline fails on this stream"))
				c.Fault("stream-refuses-every-write-deadline-call")
			} else {
				aux.Peer().FailWriteDeadlines(errors.New("injected: SetWriteDeadline fails on this stream"))
				c.Fault("stream-set-write-deadline-fails")
			}
			return pc, err
		},
		inbound: func(tag string) []byte {
			seq++
			msg := tsBinding(stun.MethodBinding, stun.ClassRequest, seq, &uname, 0)
			if cur == nil || cur.Closed() || curGone(cur) {
				if cur = dial(); cur == nil {
					return nil
				}
			}
			_, _ = cur.Write(tsEnc(msg))
			return msg
		},
		writeOK: func(h *c13H) (bool, error) {
			if cur == nil {
				return false, errors.New("no client")
			}
			seq++
			pl := []byte(fmt.Sprintf("c13-tcp-out-%d", seq))
			before := cur.BufferedLen()
			_, err := h.conn.WriteTo(pl, cur.LocalAddr())
			synctest.Wait()
			got := cur.Buffered()
			ok := len(got) >= before+2+len(pl) && bytes.Equal(got[len(got)-len(pl):], pl)
			return ok, err
		},
		released: func() (bool, string) {
			if cur == nil {
				return false, ""
			}
			if curGone(cur) {
				return true, "the client's stream was closed by the mux"
			}
			return false, "the client's stream is still open"
		},
	}
	r.run()
}

// runC13RefSched: handles of one ufrag, each with a reader looping in ReadFrom; closers, inbound datagrams and
// writers run as tasks interleaved at the mux's Yield sites. After quiescence: the reader of every closed handle
// has failed, the reader of every open handle is still waiting, no datagram was lost or duplicated while the
// connection lived, and the open handles (or, after a full release, a fresh connection) still receive.
func runC13RefSched(c *core.Ctx) {
	t := c.T
	w := newC12World(c)
	if w == nil {
		return
	}
	w.nU = 2
	c12QuietGC(c)
	s := sched.Install(c, nil)
	s.Disabled = map[string]bool{"udpmux.connWorker.afterAddrLookup": true} // see runC12Conc
	k := t.Range(2, 4, "handles")
	c.Knob("handles", k)
	for i := 0; i < k; i++ {
		if !w.doGet(0, 0, i, t.Bias(1, 2, "readAP")) {
			c.Failf("harness/c13-get", "GetConn failed")
			return
		}
	}
	s.Run(2000)
	var wg sync.WaitGroup
	task := func(site string, f func()) {
		wg.Add(1)
		go func() {
			defer wg.Done()
			s.Yield(site)
			f()
		}()
	}
	closing := make([]bool, k)
	nClose := t.Range(1, k, "closers")
	for i := 0; i < nClose; i++ {
		h := (t.Choose(k, "victim") + i) % k
		twice := closing[h]
		closing[h] = true
		task("harness.c13.closer", func() {
			_ = w.handles[h].conn.Close()
			if twice {
				c.Probe("concurrent-double-close")
			}
		})
	}
	var sent []*c12Pay
	for i, n := 0, t.Range(1, 4, "inbound"); i < n; i++ {
		p := w.mkPayload(c12KUser, 0, 1, t.Choose(2, "insrc"), t.Bias(1, 3, "inmapped"))
		sent = append(sent, p)
		task("harness.c13.inbound", func() { w.arrive(p) })
	}
	for i, n := 0, t.Range(0, 2, "writers"); i < n; i++ {
		h, a := t.Choose(k, "whandle"), t.Choose(2, "dst")
		task("harness.c13.writer", func() { w.doWrite(h, a, false, false) })
	}
	done := make(chan struct{})
	go func() { wg.Wait(); close(done) }()
	steps := s.Run(5000)
	c.Knob("schedSteps", steps)
	select {
	case <-done:
	default:
		c.Failf("C13/deadlock", "closers/readers/writers did not finish after %d scheduling steps (parked: %s)", steps, s.Describe())
		return
	}
	w.collect()
	if c.Failed() {
		return
	}
	open := 0
	w.mu.Lock()
	for i := 0; i < k; i++ {
		h := w.handles[i]
		ended := len(h.recs) > 0 && h.recs[len(h.recs)-1].err != nil
		switch {
		case closing[i] && !ended:
			c.Failf("C13/udp/closed-handle-read-still-blocked", "h%d.Close() returned, its reader is still blocked in ReadFrom", i)
		case !closing[i] && ended:
			c.Failf("C13/udp/sibling-read-disturbed", "the reader of open handle h%d failed (%v) while siblings were being closed", i, h.recs[len(h.recs)-1].err)
		}
		if !closing[i] {
			open++
		}
	}
	w.mu.Unlock()
	if c.Failed() {
		return
	}
	if open > 0 {
		for _, p := range sent {
			if p.arrived && !p.read {
				c.Failf("C13/udp/sibling-receive-fails", "%d handle(s) stayed open, yet datagram p%d for the ufrag was received by nobody", open, p.id)
				return
			}
		}
		c.Probe("siblings-usable-after-close")
	} else {
		h := k
		var ok bool
		c12Sync(s, func() { ok = w.doGet(0, 0, h, false) })
		if !ok {
			c.Failf("C13/udp/reget-fails", "GetConn after the last handle was closed failed")
			return
		}
		c.Probe("last-close")
	}
	p := w.mkPayload(c12KUser, 0, 1, 2, false)
	w.arrive(p)
	s.Run(3000)
	w.collect()
	if c.Failed() {
		return
	}
	if !p.read {
		c.Failf("C13/udp/sibling-receive-fails", "after the closers finished (%d handle(s) open, fresh connection: %v) a datagram for the ufrag was received by nobody", open, open == 0)
		return
	}
	if h := w.handles[p.readBy]; p.readBy < k && closing[p.readBy] {
		c.Failf("C13/udp/closed-handle-read-succeeds", "a datagram that arrived after h%d.Close() had returned was handed to h%d", h.idx, h.idx)
		return
	}
	for site, n := range s.Parks {
		if n > 0 && !strings.HasPrefix(site, "harness.") {
			c.Probe("site:" + site)
		}
	}
}

// curGone reports whether the server side of the client's stream was closed (the client would read EOF).
func curGone(cl *simstream.Conn) bool { return cl.Peer().Closed() }

// ---------------------------------------------------------------------------------------------------
// (b) the write-abort protocol

type c13Task struct {
	name string
	done atomic.Bool
	errs []error
}

func runC13Abort(c *core.Ctx) {
	t := c.T
	w := simnet.NewWorld()
	host := w.SimpleHost("muxhost", "10.0.0.1")
	host.AddrPortConns = t.Bias(1, 2, "addrport")
	c.Knob("addrPortConns", host.AddrPortConns)
	pc, err := host.Net().ListenUDP("udp", &net.UDPAddr{IP: net.IPv4(10, 0, 0, 1).To4(), Port: 5000})
	if err != nil {
		c.Failf("harness/listen", "%v", err)
		return
	}
	sock := w.Sockets()[0]
	umux := ice.NewUniversalUDPMuxDefault(ice.UniversalUDPMuxParams{Logger: rig.Quiet().NewLogger("c13"), UDPConn: pc, Net: host.Net()})
	local := &net.UDPAddr{IP: net.IPv4(10, 0, 0, 1).To4(), Port: 5000}
	nH := t.Range(1, 3, "handles")
	var handles []net.PacketConn
	hclosed := make([]atomic.Bool, nH)
	for i := 0; i < nH; i++ {
		h, err := umux.GetConn(c12Ufrags[i%2], local)
		if err != nil {
			c.Failf("harness/c13-get", "%v", err)
			return
		}
		handles = append(handles, h)
	}
	var cancels []context.CancelFunc
	c12QuietGC(c)
	s := sched.Install(c, nil)
	spinning := false
	c.Defer(func() {
		// never unwind with a goroutine parked in a spin loop: let spinners leave through the hook,
		// release everything else, unblock the socket, then close
		if spinning {
			ice.VerifSetYield(func(site string) {
				if strings.HasSuffix(site, ".spin") {
					runtime.Goexit()
				}
			})
		}
		sock.SetBlockWrites(false)
		for _, cf := range cancels {
			cf()
		}
		s.Drain()
		synctest.Wait()
		for _, h := range handles {
			_ = h.Close()
		}
		_ = umux.Close()
		synctest.Wait()
	})

	blockInit := !t.Bias(1, 6, "noblock")
	sock.SetBlockWrites(blockInit)
	wdlFault := t.Bias(1, 4, "wdlerr")
	if wdlFault {
		w.Lock()
		sock.SetWDLErr = errors.New("injected: SetWriteDeadline fails")
		w.Unlock()
		c.Fault("set-write-deadline-fails")
	}
	c.Knob("blockWrites", blockInit)
	c.Knob("wdlFault", wdlFault)

	var wg sync.WaitGroup
	var tasks []*c13Task
	var mu sync.Mutex
	spawn := func(name string, f func(tk *c13Task)) {
		tk := &c13Task{name: name}
		tasks = append(tasks, tk)
		wg.Add(1)
		go func() {
			defer wg.Done()
			defer tk.done.Store(true)
			s.Yield("harness.c13." + strings.SplitN(name, "#", 2)[0])
			f(tk)
		}()
	}
	peer := func(i int) *net.UDPAddr { return &net.UDPAddr{IP: net.IPv4(192, 0, 2, byte(1+i)).To4(), Port: 1000} }
	nW := t.Range(1, 4, "writers")
	for i := 0; i < nW; i++ {
		i := i
		h := t.Choose(nH, "whandle")
		n := t.Range(1, 2, "nwrites")
		spawn(fmt.Sprintf("writer#%d", i), func(tk *c13Task) {
			for j := 0; j < n; j++ {
				if j > 0 {
					s.Yield("harness.c13.writer")
				}
				_, err := handles[h].WriteTo([]byte(fmt.Sprintf("w%d.%d", i, j)), peer(i))
				mu.Lock()
				tk.errs = append(tk.errs, err)
				mu.Unlock()
			}
		})
	}
	nA := t.Range(0, 3, "aborters")
	for i := 0; i < nA; i++ {
		h := t.Choose(nH, "ahandle")
		n := t.Range(1, 2, "naborts")
		spawn(fmt.Sprintf("aborter#%d", i), func(tk *c13Task) {
			for j := 0; j < n; j++ {
				if j > 0 {
					s.Yield("harness.c13.aborter")
				}
				_, err := ice.VerifAbortWrite(handles[h])
				mu.Lock()
				tk.errs = append(tk.errs, err)
				mu.Unlock()
			}
		})
	}
	nX := t.Range(0, 2, "ctxwriters")
	for i := 0; i < nX; i++ {
		i := i
		ctx, cancel := context.WithCancel(context.Background())
		cancels = append(cancels, cancel)
		spawn(fmt.Sprintf("ctxwriter#%d", i), func(tk *c13Task) {
			_, err := umux.GetXORMappedAddrContext(ctx, &net.UDPAddr{IP: net.IPv4(198, 51, 100, byte(1+i)).To4(), Port: 3478}, time.Second)
			mu.Lock()
			tk.errs = append(tk.errs, err)
			mu.Unlock()
		})
		spawn(fmt.Sprintf("canceller#%d", i), func(*c13Task) {
			cancel()
			c.Fault("context-cancel")
		})
	}
	nC := 0
	if nH > 1 {
		nC = t.Range(0, nH-1, "closers")
	}
	for i := 0; i < nC; i++ {
		h := nH - 1 - i
		spawn(fmt.Sprintf("closer#%d", i), func(*c13Task) {
			_ = handles[h].Close()
			hclosed[h].Store(true)
		})
	}
	if blockInit && t.Bias(1, 2, "unblocker") {
		spawn("unblocker#0", func(*c13Task) { sock.SetBlockWrites(false) })
	}
	if wdlFault && t.Bias(1, 3, "heal") {
		spawn("healer#0", func(*c13Task) {
			w.Lock()
			sock.SetWDLErr = nil
			w.Unlock()
		})
	}
	c.Knob("tasks", len(tasks))
	allDone := func() bool {
		for _, tk := range tasks {
			if !tk.done.Load() {
				return false
			}
		}
		return true
	}
	onlySpinners := func() bool {
		sites := s.Sites()
		if len(sites) == 0 {
			return false
		}
		for _, x := range sites {
			if !strings.HasSuffix(x, ".spin") {
				return false
			}
		}
		return true
	}
	// drive runs the scheduler until every task in tasks is done; it returns "" or the failure class
	drive := func(budget int) (string, int) {
		steps, spinRun, idle := 0, 0, 0
		for steps < budget {
			synctest.Wait()
			if onlySpinners() {
				spinRun++
				if spinRun > 40 {
					if sock.Blocked() > 0 {
						// the spinners wait for writers that only the environment can release
						sock.SetBlockWrites(false)
						c.Logf("root unblocks the socket (spinners wait for blocked writers)")
						spinRun = 0
						continue
					}
					return "writer-spinning", steps
				}
			} else {
				spinRun = 0
			}
			if s.Step() {
				steps++
				continue
			}
			if allDone() {
				return "", steps
			}
			// nothing is parked, somebody is durably blocked: in the socket, or on a timer
			idle++
			switch {
			case sock.Blocked() > 0 && idle < 4:
				sock.SetBlockWrites(false)
				c.Logf("root unblocks the socket")
			case idle < 8:
				time.Sleep(2 * time.Second)
			default:
				return "deadlock", steps
			}
		}
		return "writer-spinning", steps
	}
	class, steps := drive(5000)
	c.Knob("schedSteps", steps)
	describe := func() string {
		var pend []string
		for _, tk := range tasks {
			if !tk.done.Load() {
				pend = append(pend, tk.name)
			}
		}
		return fmt.Sprintf("unfinished tasks %v; parked at %s; writers blocked in the socket: %d; write deadline %v", pend, s.Describe(), sock.Blocked(), sock.WriteDeadline())
	}
	if class != "" {
		spinning = true
		c.Failf("C13/"+class, "the writers/aborters did not all finish after %d scheduling steps: %s", steps, describe())
		return
	}
	live := false
	for site, n := range s.Parks {
		if n > 0 && !strings.HasPrefix(site, "harness.") {
			live = true
			c.Probe("site:" + site)
		}
	}
	if live {
		c.Knob("yieldSites", "live")
	} else {
		c.Knob("yieldSites", "absent: mux code runs atomically between harness points")
		c.Probe("yield-sites-absent")
	}
	mu.Lock()
	for _, tk := range tasks {
		for _, e := range tk.errs {
			switch {
			case e == nil:
			case errors.Is(e, context.Canceled):
				c.Probe("write-cancelled-by-context")
			case strings.Contains(e.Error(), "deadline") || strings.Contains(e.Error(), "timeout"):
				c.Probe("write-aborted-by-deadline")
			case strings.Contains(e.Error(), "injected"):
				c.Probe("abort-reports-setdeadline-failure")
			case strings.Contains(e.Error(), "closed pipe"):
				c.Probe("write-on-closed-handle")
			default:
				c.Probe("other-error")
			}
		}
	}
	mu.Unlock()

	// every in-flight write has returned: the shared socket must be usable again
	w.Lock()
	hist := append([]time.Time(nil), sock.WDLHistory...)
	w.Unlock()
	armed := 0
	for _, d := range hist {
		if !d.IsZero() {
			armed++
		}
	}
	if armed > 0 {
		c.Probe("deadline-armed")
		c.MarkNontrivial()
	}
	if len(hist) > 0 && !hist[len(hist)-1].IsZero() {
		c.Failf("C13/write-deadline-left-armed", "all writes have returned but the shared socket's write deadline is still set (%d SetWriteDeadline calls, the last one non-zero): later writes of every user time out", len(hist))
		spinning = s.NumParked() > 0
		return
	}
	if !sock.WriteDeadline().IsZero() {
		c.Failf("C13/write-deadline-left-armed", "all writes have returned but the shared socket's write deadline is %v", sock.WriteDeadline())
		return
	}
	sock.SetBlockWrites(false)
	for _, d := range w.InFlight() {
		w.Drop(d)
	}
	tasks = nil
	results := make([]error, nH)
	for i := 0; i < nH; i++ {
		i := i
		if hclosed[i].Load() {
			continue
		}
		spawn(fmt.Sprintf("probe#%d", i), func(*c13Task) {
			_, results[i] = handles[i].WriteTo([]byte(fmt.Sprintf("probe-%d", i)), peer(9))
		})
	}
	var xerr error
	xctx, xcancel := context.WithCancel(context.Background())
	cancels = append(cancels, xcancel)
	spawn("probe#universal", func(*c13Task) {
		_, xerr = umux.GetXORMappedAddrContext(xctx, &net.UDPAddr{IP: net.IPv4(198, 51, 100, 77).To4(), Port: 3478}, time.Second)
	})
	class, steps = drive(3000)
	if class != "" {
		spinning = true
		c.Failf("C13/"+class, "after all writers and aborters had finished, a fresh write did not complete in %d scheduling steps: %s", steps, describe())
		return
	}
	onWire := map[string]bool{}
	stunOut := 0
	for _, d := range w.InFlight() {
		onWire[string(d.Payload)] = true
		if d.Dst == netip.MustParseAddrPort("198.51.100.77:3478") {
			stunOut++
		}
		w.Drop(d)
	}
	for i := 0; i < nH; i++ {
		if hclosed[i].Load() {
			continue
		}
		if results[i] != nil || !onWire[fmt.Sprintf("probe-%d", i)] {
			c.Failf("C13/socket-unusable-after-abort", "after every in-flight write had returned, WriteTo by user h%d failed: err=%v on-the-wire=%v (write deadline %v)", i, results[i], onWire[fmt.Sprintf("probe-%d", i)], sock.WriteDeadline())
			return
		}
	}
	if stunOut == 0 || (xerr != nil && !strings.Contains(xerr.Error(), "timeout")) {
		// the request must have gone out; without a STUN server the call then times out
		c.Failf("C13/socket-unusable-after-abort", "after every in-flight write had returned, the mux's own STUN write failed: err=%v requests on the wire=%d", xerr, stunOut)
		return
	}
	c.Probe("socket-usable-afterwards")
}
