package checks

import (
	"github.com/pion/ice/v4"
	"net"
	"testing/synctest"
	"time"
	"verif/sim/simnet"

	"verif/sim/core"
	"verif/sim/rig"
)

// runC11Gather: the candidate stream of ONE gather cycle with slow sources. All gather configurations of the
// C09 rig (host, server-reflexive, relay over UDP/TCP, muxes), listens / STUN exchanges / TURN allocations
// held by the simulator and released late - also later than the STUN gather timeout. Oracle: exactly one
// end-of-candidates marker once the cycle is over, and no candidate after it; every candidate carries the
// cycle's ufrag.
func runC11Gather(c *core.Ctx) {
	t := c.T
	cfg := drawGCfg(t)
	cfg.sched = false
	cfg.stunWriteBlocks = false
	cfg.relayTLS = false // a TURN server that never answers the TLS handshake keeps the cycle open for ever: no marker is due
	if t.Bias(1, 2, "force-relay") {
		cfg.relay, cfg.parkAllocate = true, true
	}
	c.Knob("scenario", "single-cycle-slow-sources")
	c.Knob("cfg", cfg.String())
	g, err := newGRig(c, t, cfg)
	if err != nil {
		c.Failf("harness/setup", "%v", err)
		return
	}
	if err := g.ag.A.GatherCandidates(); err != nil {
		c.Failf("harness/gather", "%v", err)
		return
	}
	n := t.Range(0, 20, "steps")
	for i := 0; i < n; i++ {
		if t.Bias(1, 4, "wait") {
			// sources answer late: the clock runs past the gather timeout while a listen, an exchange or an
			// allocation is still outstanding
			d := []time.Duration{100 * time.Millisecond, cfg.stunTimeout + 50*time.Millisecond}[t.Choose(2, "waitlen")]
			time.Sleep(d)
			synctest.Wait()
			c.Fault("source-answers-late")
			continue
		}
		if !g.step(true) {
			break
		}
	}
	g.drain(false)
	time.Sleep(cfg.stunTimeout + time.Second)
	synctest.Wait()
	g.drain(false)
	seq := g.ag.CandSeq()
	nils := 0
	for i, cand := range seq {
		if cand == nil {
			nils++
			continue
		}
		if nils > 0 {
			c.Failf("C11/candidate-after-its-nil", "candidate %s (event %d of %d) was delivered after the end-of-candidates marker of its own cycle (%s)", rig.CandAddr(cand), i+1, len(seq), cfg)
			return
		}
		if uf, ok := cand.GetExtension("ufrag"); !ok || uf.Value != g.ag.Ufrag {
			c.Failf("C11/candidate-of-unknown-cycle", "candidate %s carries ufrag %q, the cycle's is %q", rig.CandAddr(cand), uf.Value, g.ag.Ufrag)
			return
		}
	}
	if nils != 1 {
		c.Failf("C11/nil-count", "the cycle ran to completion (nothing outstanding, gather timeout passed) and delivered %d end-of-candidates markers (%s)", nils, cfg)
		return
	}
	if t.Bias(1, 3, "second-cycle-without-candidates") && !cfg.udpMux && !cfg.tcpMux && !cfg.udpMuxSrflx {
		// ICE restart at a moment when the host has no usable interface (network down): the next cycle finds
		// nothing to publish. It is a cycle all the same: it completes, and its one end-of-candidates marker
		// is delivered - after the marker of the previous cycle, with no candidate in between.
		if err := g.ag.A.Restart("", ""); err != nil {
			c.Failf("harness/restart", "%v", err)
			return
		}
		synctest.Wait()
		saved := g.H.Ifaces
		var down []simnet.IfaceSpec
		for _, ifc := range saved {
			ifc.Flags = net.FlagBroadcast // not up
			down = append(down, ifc)
		}
		g.H.Ifaces = down
		c.Fault("no-interface-at-restart")
		before := len(g.ag.CandSeq())
		if err := g.ag.A.GatherCandidates(); err != nil {
			c.Failf("C11/gather-refused-after-restart", "GatherCandidates after Restart: %v", err)
			return
		}
		g.drain(false)
		time.Sleep(cfg.stunTimeout + time.Second)
		synctest.Wait()
		g.drain(false)
		g.H.Ifaces = saved
		if st, _ := g.ag.A.GetGatheringState(); st == ice.GatheringStateComplete {
			nils2, cands2 := 0, 0
			for _, cand := range g.ag.CandSeq()[before:] {
				if cand == nil {
					nils2++
				} else {
					cands2++
				}
			}
			if nils2 != 1 {
				c.Failf("C11/nil-count", "the second cycle (after Restart, no interface available) ran to completion - gathering state Complete - and delivered %d end-of-candidates markers and %d candidates (%s)", nils2, cands2, cfg)
				return
			}
			c.Probe("cycle-without-candidates-delivers-its-nil")
		}
	}
	if !g.closeAgent() {
		c.Failf("C11/close-did-not-return", "Close did not return")
		return
	}
	g.drain(false)
	g.finish()
	c.Probe("single-cycle-checked")
	c.MarkNontrivial()
}
