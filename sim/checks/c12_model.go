package checks

import "fmt"

// Reference model of the UDP mux routing statement (C12). It is a pure function over a
// comparable state so that the same code serves the sequential oracle (apply the ops in
// order, compare every observation) and the porcupine linearizability model.

const (
	c12MaxConn = 16
	c12MaxH    = 16
	c12MaxU    = 4
	c12MaxAddr = 6
	c12QLen    = 8
)

const (
	c12OpGet = iota
	c12OpWrite
	c12OpIn
	c12OpRemove
	c12OpClose
	c12OpMuxClose
	c12OpRead
)

var c12OpName = []string{"GetConn", "WriteTo", "Inbound", "RemoveConnByUfrag", "Close", "MuxClose", "Read"}

// c12St is the model state. Indices are stored +1 so that the zero value means "none".
type c12St struct {
	MuxClosed bool
	NConn     int8
	CU, CF    [c12MaxConn]int8
	CReg      [c12MaxConn]bool // registered under (CU,CF)
	CClosed   [c12MaxConn]bool
	CRefs     [c12MaxConn]int8
	Reg       [c12MaxU][2]int8           // ufrag x family -> conn+1
	Bind      [c12MaxAddr]int8           // canonical remote address -> conn+1 (most recent writer)
	HConn     [c12MaxH]int8              // handle -> conn+1 (0: not handed out)
	HClosed   [c12MaxH]bool              // handle closed by its user
	Q         [c12MaxConn][c12QLen]int16 // per-connection FIFO of payload+1 (only used by the linearizability model)
	NextIn    int16                      // datagrams are routed in arrival order
}

// c12Op is the input of one operation.
type c12Op struct {
	Kind int
	U, F int // GetConn / Remove
	H    int // GetConn (the handle it yields), WriteTo, Close, Read
	A    int // canonical remote address index (WriteTo, Inbound)
	SU   int // Inbound: ufrag index named before ':' in a decodable STUN USERNAME, -1 if none/unknown
	Pay  int // Inbound: payload id
	Arr  int // Inbound: arrival index at the shared socket
	// Inbound: Strict = a drop is not excused by concurrency (sequential probe);
	// EverRead = some reader got this payload.
	Strict, EverRead bool
	Desc             string
}

// c12Res is the output of one operation.
type c12Res struct {
	OK  bool
	Pay int // Read: payload id
}

func c12Fam(a int) int {
	if a >= 3 {
		return 1
	}
	return 0
}

// route is the statement's routing rule: the most recent writer to the source address, else the
// connection registered for the source's family under the USERNAME's ufrag, else nobody.
func (s *c12St) route(a, su int) int {
	if s.MuxClosed {
		return 0
	}
	if k := int(s.Bind[a]); k != 0 {
		return k
	}
	if su >= 0 {
		return int(s.Reg[su][c12Fam(a)])
	}
	return 0
}

func (s *c12St) dropConn(k int, closed bool) {
	i := k - 1
	if s.CReg[i] && int(s.Reg[s.CU[i]][s.CF[i]]) == k {
		s.Reg[s.CU[i]][s.CF[i]] = 0
	}
	s.CReg[i] = false
	for a := range s.Bind {
		if int(s.Bind[a]) == k {
			s.Bind[a] = 0
		}
	}
	if closed {
		s.CClosed[i] = true
		s.Q[i] = [c12QLen]int16{}
	}
}

func (s *c12St) push(k, pay int) bool {
	q := &s.Q[k-1]
	for i := range q {
		if q[i] == 0 {
			q[i] = int16(pay + 1)
			return true
		}
	}
	return false
}

func (s *c12St) pop(k, pay int) bool {
	q := &s.Q[k-1]
	if q[0] != int16(pay+1) {
		return false
	}
	copy(q[:], q[1:])
	q[c12QLen-1] = 0
	return true
}

// c12Step applies op to s. queue says whether the per-connection queues are tracked (linearizability
// model) or the caller compares deliveries itself (sequential oracle).
func c12Step(s c12St, in c12Op, out c12Res, queue bool) (bool, c12St) {
	switch in.Kind {
	case c12OpGet:
		if !out.OK {
			return true, s
		}
		if s.MuxClosed {
			// not covered by the statement: a handle from a closed mux is a handle on a dead connection
			if int(s.NConn) >= c12MaxConn {
				return true, s
			}
			k := int(s.NConn) + 1
			s.NConn++
			s.CU[k-1], s.CF[k-1], s.CClosed[k-1], s.CRefs[k-1] = int8(in.U), int8(in.F), true, 1
			s.HConn[in.H] = int8(k)
			return true, s
		}
		k := int(s.Reg[in.U][in.F])
		if k == 0 {
			if int(s.NConn) >= c12MaxConn {
				return false, s
			}
			k = int(s.NConn) + 1
			s.NConn++
			s.CU[k-1], s.CF[k-1], s.CReg[k-1] = int8(in.U), int8(in.F), true
			s.Reg[in.U][in.F] = int8(k)
		}
		s.CRefs[k-1]++
		s.HConn[in.H] = int8(k)
		return true, s
	case c12OpWrite:
		k := int(s.HConn[in.H])
		if k == 0 || !out.OK || s.MuxClosed || s.CClosed[k-1] || !s.CReg[k-1] {
			// no effect: the write failed (closed handle, closed connection) or the connection was removed.
			// A write that was pending when its handle was closed and still went out counts as a write of
			// the connection (which lives on through the sibling handles).
			return true, s
		}
		s.Bind[in.A] = int8(k)
		return true, s
	case c12OpIn:
		if queue {
			if in.Arr != int(s.NextIn) {
				return false, s
			}
			s.NextIn++
		}
		dest := s.route(in.A, in.SU)
		if in.EverRead {
			if dest == 0 {
				return false, s
			}
			if queue && !s.push(dest, in.Pay) {
				return false, s
			}
			return true, s
		}
		if in.Strict && dest != 0 {
			return false, s
		}
		return true, s
	case c12OpRead:
		k := int(s.HConn[in.H])
		if k == 0 || !s.pop(k, out.Pay) {
			return false, s
		}
		return true, s
	case c12OpRemove:
		for f := 0; f < 2; f++ {
			if k := int(s.Reg[in.U][f]); k != 0 {
				s.dropConn(k, false)
			}
		}
		return true, s
	case c12OpClose:
		k := int(s.HConn[in.H])
		if k == 0 || s.HClosed[in.H] {
			return true, s
		}
		s.HClosed[in.H] = true
		s.CRefs[k-1]--
		if s.CRefs[k-1] <= 0 && !s.CClosed[k-1] {
			s.dropConn(k, true)
		}
		return true, s
	case c12OpMuxClose:
		s.MuxClosed = true
		for k := 1; k <= int(s.NConn); k++ {
			if s.CReg[k-1] {
				s.dropConn(k, true)
			}
		}
		return true, s
	}
	return false, s
}

func c12DescribeOp(in c12Op, out c12Res) string {
	switch in.Kind {
	case c12OpGet:
		return fmt.Sprintf("GetConn(u%d,fam%d)->h%d ok=%v", in.U, in.F, in.H, out.OK)
	case c12OpWrite:
		return fmt.Sprintf("h%d.WriteTo(a%d) ok=%v", in.H, in.A, out.OK)
	case c12OpIn:
		return fmt.Sprintf("In#%d(p%d from a%d user=u%d strict=%v read=%v %s)", in.Arr, in.Pay, in.A, in.SU, in.Strict, in.EverRead, in.Desc)
	case c12OpRead:
		return fmt.Sprintf("h%d.Read->p%d", in.H, out.Pay)
	case c12OpRemove:
		return fmt.Sprintf("RemoveConnByUfrag(u%d)", in.U)
	case c12OpClose:
		return fmt.Sprintf("h%d.Close", in.H)
	case c12OpMuxClose:
		return "mux.Close"
	}
	return "?"
}
