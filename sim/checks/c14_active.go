package checks

import (
	"bytes"
	"context"
	"errors"
	"fmt"
	"net"
	"net/netip"
	"sync"
	"testing/synctest"
	"time"

	"github.com/pion/ice/v4"

	"verif/sim/core"
	"verif/sim/rig"
	"verif/sim/simstream"
)

// c14Active: the packet connection of an ACTIVE TCP candidate (real activeTCPConn: its two buffers and its
// reader and writer goroutines) over a simulated stream; the operating-system calls (local address, dial)
// go through the verif seam. Packets of every length up to the receive MTU written with WriteTo must appear
// on the wire as the RFC 4571 encoding of exactly that sequence; framed packets arriving in tape-chosen
// chunks must come out of ReadFrom as the same sequence; a dial that fails, or a stream that breaks, yields
// errors, never an altered packet.
func c14Active(c *core.Ctx) {
	t := c.T
	local := &net.TCPAddr{IP: net.IPv4(10, 0, 1, 1), Port: 5001}
	remote := netip.MustParseAddrPort("10.0.0.1:4000")
	chunk, cs := c14Chunker(c, t.Bias(1, 2, "tape-chunks"))
	var mu sync.Mutex
	var srv *simstream.Conn
	dialFails := t.Bias(1, 12, "dial-fails")
	ice.VerifSetActiveTCPSeam(&ice.VerifActiveTCPSeam{
		LocalAddr: func(string) (*net.TCPAddr, error) { return local, nil },
		Dial: func(_ context.Context, l *net.TCPAddr, _ string) (net.Conn, error) {
			if dialFails {
				return nil, errors.New("simulated: connection refused")
			}
			cli, s := simstream.Pair(l, net.TCPAddrFromAddrPort(remote))
			cli.SetChunker(chunk)
			mu.Lock()
			srv = s
			mu.Unlock()
			return cli, nil
		},
	})
	c.Defer(func() { ice.VerifSetActiveTCPSeam(nil) })
	ctx, cancel := context.WithCancel(context.Background())
	c.Defer(cancel)
	pc := ice.VerifNewActiveTCPConn(ctx, "10.0.1.1:0", remote, rig.Quiet().NewLogger("c14a"))
	c.Defer(func() { _ = pc.Close(); synctest.Wait() })
	synctest.Wait()
	mu.Lock()
	peer := srv
	mu.Unlock()
	if dialFails {
		c.Fault("dial-error")
		time.Sleep(10 * time.Millisecond)
		synctest.Wait()
		if _, err := pc.WriteTo([]byte("x"), net.TCPAddrFromAddrPort(remote)); err == nil {
			// accepted into the buffer before the failure was noticed is legal; afterwards writes must fail
			synctest.Wait()
			if _, err2 := pc.WriteTo([]byte("y"), net.TCPAddrFromAddrPort(remote)); err2 == nil {
				c.Failf("C14/active-write-after-failed-dial", "WriteTo keeps succeeding although the dial failed")
			}
		}
		return
	}
	if peer == nil {
		c.Failf("harness/c14-active", "the active connection did not dial")
		return
	}
	c.Defer(func() { _ = peer.Close() })
	salt := uint64(t.Choose(1<<16, "salt"))

	// reader of the packet connection
	type ev struct {
		data []byte
		err  error
	}
	var evs []ev
	go func() {
		buf := make([]byte, 8192)
		for {
			n, _, err := pc.ReadFrom(buf)
			mu.Lock()
			evs = append(evs, ev{append([]byte(nil), buf[:n]...), err})
			mu.Unlock()
			if err != nil {
				return
			}
		}
	}()

	var out [][]byte // packets accepted by WriteTo
	var in [][]byte  // packets the peer framed towards us
	steps := t.Range(2, 12, "steps")
	lens := []int{0, 1, 2, 100, 1200, 8189, 8190, 8191, 8192}
	for i := 0; i < steps && !c.Failed(); i++ {
		c.Step++
		ln := lens[t.Choose(len(lens), "len")]
		if t.Bias(1, 2, "outbound") {
			p := tsPayload(salt, i, ln)
			n, err := pc.WriteTo(p, net.TCPAddrFromAddrPort(remote))
			synctest.Wait()
			if err != nil || n != ln {
				c.Failf("C14/active-write-refused", "WriteTo of a %d-byte packet (<= receive MTU) returned n=%d err=%v", ln, n, err)
				return
			}
			out = append(out, p)
			c.Probe(fmt.Sprintf("active-out-len-%d", ln))
		} else {
			p := tsPayload(salt+1, i, ln)
			_, _ = peer.Write(tsEnc(p))
			synctest.Wait()
			in = append(in, p)
		}
		// wire so far = RFC 4571 encoding of the accepted packets, in order
		wire := peer.Buffered()
		var want []byte
		for _, p := range out {
			want = append(want, tsEnc(p)...)
		}
		if !bytes.Equal(wire, want) {
			frames, _ := tsDecodeAll(wire)
			c.Failf("C14/active-wire-differs", "after %d accepted packet(s) (last %d bytes) the peer sees %d bytes / %d whole frames, the RFC 4571 encoding of what WriteTo accepted has %d bytes; first difference at byte %d; stream closed by the connection: %v",
				len(out), ln, len(wire), len(frames), len(want), c14FirstDiff(wire, want), peer.Peer().Closed())
			return
		}
		mu.Lock()
		got := append([]ev(nil), evs...)
		mu.Unlock()
		if len(got) != len(in) {
			c.Failf("C14/active-read-count", "%d packets were framed towards the connection, ReadFrom returned %d times", len(in), len(got))
			return
		}
		for j := range got {
			if got[j].err != nil || !bytes.Equal(got[j].data, in[j]) {
				c.Failf("C14/active-packet-corrupted", "inbound packet #%d: %d bytes framed, ReadFrom returned %d bytes err=%v; first difference at byte %d", j, len(in[j]), len(got[j].data), got[j].err, c14FirstDiff(got[j].data, in[j]))
				return
			}
		}
	}
	if !c.Failed() && t.Bias(1, 4, "backlog") {
		// the peer's receive window is closed for a while: the connection's writer blocks in the socket and the
		// packets WriteTo accepts pile up behind it (tens of kilobytes); when the window opens again the stream
		// is the exact encoding of every accepted packet, in order - none merged, split, or missing
		peer.SetRecvCap(16)
		c.Fault("peer-window-closed-backlog")
		n := 36 + t.Choose(40, "backlog-n")
		for i := 0; i < n; i++ {
			p := tsPayload(salt+5, i, []int{1000, 1200, 700, 8192, 100}[t.Pick([]int{6, 3, 2, 1, 2}, "backlog-len")])
			if wn, err := pc.WriteTo(p, net.TCPAddrFromAddrPort(remote)); err == nil && wn == len(p) {
				out = append(out, p)
			}
		}
		synctest.Wait()
		peer.SetRecvCap(0)
		time.Sleep(10 * time.Millisecond)
		synctest.Wait()
		wire := peer.Buffered()
		var want []byte
		for _, p := range out {
			want = append(want, tsEnc(p)...)
		}
		if !bytes.Equal(wire, want) {
			frames, _ := tsDecodeAll(wire)
			c.Failf("C14/active-wire-differs", "after a backlog of %d packets behind a closed receive window the peer sees %d bytes / %d whole frames, the RFC 4571 encoding of the %d packets WriteTo accepted has %d bytes; first difference at byte %d",
				n, len(wire), len(frames), len(out), len(want), c14FirstDiff(wire, want))
			return
		}
		c.Probe("active-backlog-drained-intact")
	}
	if !c.Failed() && t.Bias(1, 3, "oversized-inbound") {
		// a frame longer than the receive MTU arrives (lengths around the limit, around twice the limit, the
		// largest the header can say), followed by an ordinary one: the stream ends for the reader - no part of
		// the oversized frame and nothing after it is delivered as a packet - and what the connection sends
		// meanwhile is still the exact encoding of what WriteTo accepted
		big := []int{8193, 8194, 9192, 16383, 16384, 16385, 65535}[t.Choose(7, "biglen")]
		c.Fault("inbound-frame-larger-than-receive-mtu")
		mu.Lock()
		before := len(evs)
		mu.Unlock()
		_, _ = peer.Write(tsEnc(tsPayload(salt+2, 0, big)))
		synctest.Wait()
		nOut := t.Range(0, 2, "writes-after")
		for i := 0; i < nOut; i++ {
			p := tsPayload(salt+3, i, lens[t.Choose(len(lens), "len")])
			if n, err := pc.WriteTo(p, net.TCPAddrFromAddrPort(remote)); err == nil && n == len(p) {
				out = append(out, p)
			}
			synctest.Wait()
		}
		_, _ = peer.Write(tsEnc(tsPayload(salt+4, 0, 100)))
		time.Sleep(10 * time.Millisecond)
		synctest.Wait()
		mu.Lock()
		got := append([]ev(nil), evs[before:]...)
		mu.Unlock()
		for _, e := range got {
			if len(e.data) > 0 || e.err == nil {
				c.Failf("C14/active-oversized-frame-delivered", "a %d-byte frame (receive MTU 8192) was framed towards the connection; afterwards ReadFrom returned %d bytes err=%v (%d further results): the frame was not refused / the stream not ended",
					big, len(e.data), e.err, len(got))
				return
			}
		}
		wire := peer.Buffered()
		var want []byte
		for _, p := range out {
			want = append(want, tsEnc(p)...)
		}
		if !bytes.HasPrefix(want, wire) {
			c.Failf("C14/active-wire-differs", "after an oversized inbound frame (%d bytes) the peer sees %d bytes that are not the RFC 4571 encoding of what WriteTo accepted (%d bytes); first difference at byte %d",
				big, len(wire), len(want), c14FirstDiff(wire, want))
			return
		}
		c.Probe("oversized-inbound-frame-refused")
	}
	cs.flush(c)
	c.MarkNontrivial()
}
