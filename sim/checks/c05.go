package checks

import (
	"fmt"
	"io"
	"net/netip"
	"time"

	"github.com/pion/ice/v4"
	"github.com/pion/stun/v3"

	"verif/sim/core"
	"verif/sim/rig"
	"verif/sim/simnet"
)

func init() {
	core.Register(&core.Spec{ID: "C05", Fn: runC05})
}

var c05TieBreakers = []uint64{0, 1, 1 << 63, ^uint64(0), 0x1234567890abcdef, 0x1234567890abcdf0}

// runC05 has two parts, chosen by the tape:
//
//	part 1 - forged authentic same-role requests with boundary tie-breakers against a live agent,
//	         oracle = RFC 8445 §7.3.1.1 decision table read off the wire + differential on pair state;
//	part 2 - two real agents started in the same role with distinct tie-breakers under the C01
//	         schedule/fault space, oracle = roles end opposite, then the C01 oracles.
func runC05(c *core.Ctx) {
	k := drawC01Knobs(c)
	k.liteB, k.restart = false, false
	part2 := c.T.Bias(1, 2, "part2")
	// (Part 2 runs full agents only. A lite peer that starts controlled originates no checks, so a conflict
	// with it could only be resolved through its 487 answers - which the agent ignores, and which C02 as
	// given requires to "change nothing". Measured: lite B controlled with the smaller tie-breaker and a full A
	// started controlled never connect. Not judged here: C05 does not quantify over lite peers.)
	if !part2 {
		// part 1 also against a lite receiver (it is controlled and, being lite, sends no requests of its own)
		k.liteB = c.T.Bias(1, 4, "liteB")
		c.Knob("liteB", k.liteB)
	}
	c.Knob("part", map[bool]int{false: 1, true: 2}[part2])
	opts := func() []ice.AgentOption {
		return []ice.AgentOption{
			ice.WithCheckInterval(k.checkInterval), ice.WithKeepaliveInterval(k.keepalive),
			ice.WithDisconnectedTimeout(k.disc), ice.WithFailedTimeout(k.failed),
			ice.WithMaxBindingRequests(uint16(k.maxReq)),
			ice.WithSrflxAcceptanceMinWait(0), ice.WithPrflxAcceptanceMinWait(0),
			ice.WithCandidateTypes([]ice.CandidateType{ice.CandidateTypeHost, ice.CandidateTypeServerReflexive}),
		}
	}
	cfg := rig.DuoCfg{AddrsA: c01Addrs("10.0.1", k.nA), AddrsB: c01Addrs("10.0.2", k.nB), OptsA: opts(), OptsB: opts()}
	if !part2 && c.T.Bias(1, 4, "binding-request-handler") {
		// the application has a Binding request handler that accepts every request it is shown (it then selects
		// the pair): a role-conflicting request is not a connectivity check and must never get that far
		accept := func(_ *stun.Message, _, _ ice.Candidate, _ *ice.CandidatePair) bool { return true }
		cfg.OptsA = append(cfg.OptsA, ice.WithBindingRequestHandler(accept))
		cfg.OptsB = append(cfg.OptsB, ice.WithBindingRequestHandler(accept))
		c.Knob("bindingRequestHandler", true)
	}
	if k.aliasA {
		cfg.AliasA = "198.51.100.1"
	}
	if k.aliasB && !k.liteB {
		cfg.AliasB = "198.51.100.2"
	}
	if k.liteB {
		cfg.OptsB = append(opts(), ice.WithICELite(true), ice.WithCandidateTypes([]ice.CandidateType{ice.CandidateTypeHost}))
	}
	d, err := rig.NewDuo(c, cfg)
	if err != nil {
		c.Failf("harness/setup", "%v", err)
		return
	}
	d.S.DropW, d.S.DupW, d.S.ReorderW, d.S.AdvanceW = k.dropW, k.dupW, k.reorderW, k.advW
	for _, ag := range []*rig.AgentH{d.A, d.B} {
		if err := d.Gather(ag); err != nil {
			c.Failf("harness/gather", "%v", err)
			return
		}
	}
	// own tie-breakers: boundary values, distinct
	ia := c.T.Choose(len(c05TieBreakers), "tbA")
	ib := c.T.Choose(len(c05TieBreakers)-1, "tbB")
	if ib >= ia {
		ib++
	}
	tb := map[string]uint64{"A": c05TieBreakers[ia], "B": c05TieBreakers[ib]}
	for _, ag := range []*rig.AgentH{d.A, d.B} {
		if err := ice.VerifSetTieBreaker(ag.A, tb[ag.Name]); err != nil {
			c.Failf("harness/tiebreaker", "%v", err)
			return
		}
	}
	c.Knob("tbA", fmt.Sprintf("%#x", tb["A"]))
	c.Knob("tbB", fmt.Sprintf("%#x", tb["B"]))
	led := rig.NewLedger(d)

	if part2 {
		role := []string{"controlling", "controlled"}[c.T.Choose(2, "samerole")]
		c.Knob("sameRole", role)
		sess := &c01Session{c: c, d: d, k: k, prefix: "C05", sameRole: role}
		sess.generation(0)
		if c.Failed() || !sess.anyBidir {
			return
		}
		led.Update()
		ra, rb := lastRole(led.Side["A"].SentRoles), lastRole(led.Side["B"].SentRoles)
		c.Logf("final roles A=%s B=%s", ra, rb)
		if ra != "" && rb != "" && ra == rb {
			c.Failf("C05/same-role-after-conflict", "both agents still send role %s (tie-breakers A=%#x B=%#x)", ra, tb["A"], tb["B"])
			return
		}
		// RFC 8445 §7.3.1.1 makes the agent with the larger tie-breaker controlling.
		if ra != "" && rb != "" {
			wantA := "controlled"
			if tb["A"] > tb["B"] {
				wantA = "controlling"
			}
			if ra != wantA {
				c.Failf("C05/wrong-winner", "A (tie-breaker %#x) ended %s, B (%#x) ended %s", tb["A"], ra, tb["B"], rb)
			}
			c.Probe("conflict-resolved-" + role)
		}
		return
	}

	// part 1
	inj := &c05Injector{c: c, d: d, led: led, tb: tb, role: map[string]string{"A": "controlling", "B": "controlled"}, liteB: k.liteB, ci: k.checkInterval, tick: c05TickBound(k)}
	sess := &c01Session{c: c, d: d, k: k, noOracles: true}
	sess.hook = func(string) {
		if c.Failed() {
			return
		}
		if c.T.Bias(1, 10, "conflict?") {
			inj.inject()
		}
	}
	sess.generation(0)
	extra := c.T.Range(0, 20, "extra")
	for i := 0; i < extra && !c.Failed(); i++ {
		d.S.StepFair(k.checkInterval)
		sess.hook("connected")
	}
	if !c.Failed() && !k.liteB && c.T.Bias(1, 3, "restart-then-conflicts") {
		// conflicts met by a restarted agent are decided like any other: by the tie-breaker it advertises
		c.Fault("restart-before-conflicts")
		sess.restart()
		for i := 0; i < extra && !c.Failed(); i++ {
			d.S.StepFair(k.checkInterval)
			sess.hook("connected")
		}
	}
}

func lastRole(r []string) string {
	for i := len(r) - 1; i >= 0; i-- {
		if r[i] != "" {
			return r[i]
		}
	}
	return ""
}

type c05Injector struct {
	c    *core.Ctx
	d    *rig.Duo
	led  *rig.Ledger
	tb   map[string]uint64
	role map[string]string // the checker's own belief of each agent's current role
	seq  uint32
	// liteB: agent B is lite. Its role cannot be read off the wire (it originates no requests while
	// controlled); it is controlled until a forged conflict makes it switch, after which it is left alone
	// (the real conflict with the controlling peer that follows is part 2's subject).
	liteB        bool
	liteSwitched bool
	ci           time.Duration
	tick         time.Duration // upper bound of the interval between two check ticks of a connected agent
}

// advertised returns the tie-breaker in the most recent Binding request sent from a socket of host h.
func (in *c05Injector) advertised(h *simnet.Host) (uint64, bool) {
	d := in.d
	ids := hostSockIDs(d.W, h)
	d.W.Lock()
	wire := append([]*rig.WireEv(nil), d.Wire...)
	d.W.Unlock()
	for i := len(wire) - 1; i >= 0; i-- {
		w := wire[i]
		if !ids[w.D.SockID] || w.D.Dup {
			continue
		}
		m := w.Msg()
		if !m.IsSTUN || m.Class != stun.ClassRequest {
			continue
		}
		if m.Controlling != nil {
			return *m.Controlling, true
		}
		if m.Controlled != nil {
			return *m.Controlled, true
		}
	}
	return 0, false
}

func (in *c05Injector) inject() {
	c, d := in.c, in.d
	target, peer, th := d.A, d.B, d.HA
	if c.T.Choose(2, "target") == 1 || in.liteB {
		// (with a lite B only B is targeted: the full peer then stays controlling, so nothing but a forged
		// conflict can change the role of B, which the checker cannot read off the wire)
		target, peer, th = d.B, d.A, d.HB
	}
	if uf, _, err := target.A.GetRemoteUserCredentials(); err != nil || uf != peer.Ufrag {
		return // after a Restart, until the peer's new credentials are set, no request of the peer can be authentic
	}
	if target.Conn == nil || peer.Conn == nil {
		return
	}
	// The current role is read off the wire: let only the clock advance (no deliveries, so nothing can
	// change the role) until the agent emits a request, and take the role attribute it carries.
	in.led.Update()
	liteTarget := in.liteB && target == d.B
	role := ""
	if liteTarget {
		if in.liteSwitched {
			return
		}
		role = "controlled"
		c.Probe("conflict-at-lite-receiver")
		// let a check tick pass with no delivery, as the wire-reading loop below does for a full agent: what
		// earlier deliveries changed (liveness, Disconnected -> Connected) is then visible before the snapshot
		// and is not attributed to the conflicting request
		// (a connected agent ticks every min(keepalive, disconnected, failed timeout), not every check interval)
		for el := time.Duration(0); el < in.tick+in.ci; el += in.ci {
			d.S.Advance(in.ci)
		}
	} else {
		n00 := in.led.Side[target.Name].SentReqs
		for i := 0; i < 400 && in.led.Side[target.Name].SentReqs == n00; i++ {
			d.S.Advance(d.S.Deltas[1])
			in.led.Update()
		}
		if in.led.Side[target.Name].SentReqs == n00 {
			return // the agent is not sending (failed / no pairs): nothing to collide with
		}
		role = lastRole(in.led.Side[target.Name].SentRoles)
		if role == "" {
			return
		}
	}
	in.role[target.Name] = role
	locals := target.LocalCands()
	pre := rig.TakeSnap(target)
	if len(locals) == 0 || len(pre.Remotes) == 0 {
		return
	}
	dstCand := locals[c.T.Choose(len(locals), "dstcand")]
	dst := rig.CandAP(dstCand)
	src := netip.MustParseAddrPort(pre.Remotes[c.T.Choose(len(pre.Remotes), "src")].Addr[4:])
	// sometimes the conflicting request comes from an address that is not (yet) a remote candidate: a peer
	// behind a NAT, or a check that overtakes its trickled candidate
	unknownSrc := c.T.Bias(1, 3, "unknownsrc")
	if unknownSrc {
		src = netip.AddrPortFrom(netip.MustParseAddr("192.0.2.44"), uint16(45000+c.T.Choose(3, "unkport")))
		c.Probe("conflict-from-unknown-source")
	}
	// the agent's tie-breaker is the one it advertises (a peer knows no other): read off its latest request,
	// the configured value only while it has not sent any (a lite agent in the controlled role never does)
	own := in.tb[target.Name]
	if adv, ok := in.advertised(th); ok {
		if adv != own {
			c.Probe("advertised-tie-breaker-differs-from-configured")
		}
		own = adv
	}
	var theirs uint64
	switch c.T.Choose(6, "theirs") {
	case 0:
		theirs = own
	case 1:
		theirs = own - 1
	case 2:
		theirs = own + 1
	case 3:
		theirs = 0
	case 4:
		theirs = ^uint64(0)
	default:
		theirs = uint64(c.T.Choose(1<<30, "rnd"))<<20 | 5
	}
	in.seq++
	spec := rig.MsgSpec{Method: stun.MethodBinding, Class: stun.ClassRequest, Seq: in.seq,
		Username: rig.Str(target.Ufrag + ":" + peer.Ufrag), Key: target.Pwd, Priority: rig.U32(2130706431),
		UseCandidate: c.T.Bias(1, 2, "uc")}
	if c.T.Bias(1, 4, "nom") {
		spec.Nomination = rig.U32(uint32(c.T.Range(1, 99, "nomval")))
	}
	if role == "controlling" {
		spec.Controlling = &theirs
	} else {
		spec.Controlled = &theirs
	}
	keep := (role == "controlling" && own >= theirs) || (role == "controlled" && own < theirs)
	// the same conflicting request, not authentic (signed with another password): it is not the peer's, so it
	// decides nothing - no answer, no role change, whatever the tie-breakers say
	unauth := !liteTarget && c.T.Bias(1, 6, "unauthenticated-conflict")
	if unauth {
		spec.Key = "somebody-elses-password-0123456789"
		c.Fault("unauthenticated-conflict")
	}
	// socket fault: the answer (the 487 of an agent that keeps its role) cannot be written - the stream of an
	// ICE-TCP peer that hung up, a closed socket: the decision stands all the same
	var faulted []*simnet.Sock
	if keep && !unauth && c.T.Bias(1, 6, "answer-cannot-be-written") {
		for _, so := range d.W.Sockets() {
			if so.Host() == th && so.Tag != "service" && !so.Closed() {
				faulted = append(faulted, so)
			}
		}
		d.W.Lock()
		for _, so := range faulted {
			so.WriteErr = io.ErrClosedPipe
		}
		d.W.Unlock()
		c.Fault("conflict-answer-write-error")
	}
	defer func() {
		d.W.Lock()
		for _, so := range faulted {
			so.WriteErr = nil
		}
		d.W.Unlock()
	}()

	before := map[uint64]bool{}
	for _, q := range d.W.InFlight() {
		before[q.ID] = true
	}
	txid := rig.FreshTxID(in.seq)
	dg := d.W.Inject(src, dst, spec.Build(), "role-conflict")
	c.Fault(fmt.Sprintf("conflict:%s:keep=%v", role, keep))
	c.Logf("conflict target=%s role=%s own=%#x theirs=%#x keep=%v %s->%s", target.Name, role, own, theirs, keep, src, dst)
	if res, _ := d.S.Deliver(dg); res != simnet.Delivered {
		c.Probe("conflict-not-delivered")
		return
	}
	post := rig.TakeSnap(target)
	ids := hostSockIDs(d.W, th)
	var emitted []*simnet.Datagram
	for _, q := range d.W.InFlight() {
		if !before[q.ID] && ids[q.SockID] {
			emitted = append(emitted, q)
		}
	}
	// replies to the forged request (same transaction id)
	var replies []rig.Msg
	for _, q := range emitted {
		m := rig.Decode(q.Payload)
		if m.IsSTUN && m.TxID == txid {
			if q.Dst != src || q.Src != dst {
				c.Failf("C05/reply-misaddressed", "reply to the conflicting request went %s->%s, request came %s->%s", q.Src, q.Dst, src, dst)
			}
			replies = append(replies, m)
		} else if m.IsSTUN && m.Class == stun.ClassRequest && !unknownSrc {
			// (from an unknown source the authentic request may teach the agent a peer-reflexive candidate,
			// and a new candidate starts an ordinary check round - that is not a reply to the conflict)
			c.Failf("C05/treated-as-check", "conflicting request (role=%s keep=%v) triggered a Binding request %s", role, keep, d.Tx.Describe(q))
		}
		// the replies are consumed here so that they do not reach the real peer as stray responses
		d.W.Drop(q)
	}
	judge := true
	if unauth {
		if len(replies) != 0 {
			c.Failf("C05/unauthenticated-conflict-answered", "a conflicting request that does not verify under the agent's password (role=%s own=%#x theirs=%#x) was answered: %v", role, own, theirs, describeMsgs(replies))
		}
		// no role change either: the role is read off the wire below
		c.Probe("unauthenticated-conflict-ignored")
		judge = false
	}
	if len(faulted) > 0 {
		d.W.Lock()
		for _, so := range faulted {
			so.WriteErr = nil
		}
		d.W.Unlock()
		faulted = nil
		c.Probe("conflict-answer-lost-to-write-error")
		judge = false // no answer can be seen; the kept role is verified off the wire below
	}
	if judge {
		for _, m := range replies {
			if m.Class == stun.ClassSuccessResponse {
				c.Failf("C05/success-response-to-conflict", "conflicting request (role=%s own=%#x theirs=%#x) was answered with a success response", role, own, theirs)
			}
		}
		if keep {
			ok := len(replies) == 1 && replies[0].Class == stun.ClassErrorResponse && replies[0].ErrorCode == 487
			if ok && stun.MessageIntegrity([]byte(target.Pwd)).Check(replies[0].M) != nil {
				c.Failf("C05/487-not-authentic", "487 response does not verify under the receiver's password")
			}
			if !ok && !c.Failed() {
				c.Failf("C05/keep-without-487", "role=%s own=%#x theirs=%#x: expected exactly one 487 error response, got %d replies %v", role, own, theirs, len(replies), describeMsgs(replies))
			}
			if ok && !c.Failed() && c.T.Bias(1, 3, "dup-conflict") {
				// the same datagram once more (duplicated on the path, or the peer's retransmission after the first
				// 487 was lost): the decision and the answer are the same
				seen := map[uint64]bool{}
				for _, q := range d.W.InFlight() {
					seen[q.ID] = true
				}
				dg2 := d.W.Inject(src, dst, dg.Payload, "role-conflict-duplicate")
				c.Fault("conflict-duplicated")
				if res, _ := d.S.Deliver(dg2); res == simnet.Delivered {
					n487 := 0
					for _, q := range d.W.InFlight() {
						if seen[q.ID] || !ids[q.SockID] {
							continue
						}
						if m := rig.Decode(q.Payload); m.IsSTUN && m.TxID == txid {
							if m.Class == stun.ClassErrorResponse && m.ErrorCode == 487 {
								n487++
							} else {
								c.Failf("C05/duplicate-conflict-answered-differently", "the second delivery of the conflicting request was answered with %s/%s err=%d", m.Method, m.Class, m.ErrorCode)
							}
							d.W.Drop(q)
						}
					}
					if n487 != 1 && !c.Failed() {
						c.Failf("C05/keep-without-487/duplicate", "role=%s own=%#x theirs=%#x: the second delivery of the same conflicting request got %d 487 answers (the first got one)", role, own, theirs, n487)
					}
				}
			}
		} else {
			if len(replies) != 0 {
				c.Failf("C05/switch-with-reply", "role=%s own=%#x theirs=%#x: receiver must switch silently, got %v", role, own, theirs, describeMsgs(replies))
			}
			if role == "controlling" {
				in.role[target.Name] = "controlled"
			} else {
				in.role[target.Name] = "controlling"
			}
			c.Probe("forged-conflict-switched-" + role)
			if liteTarget {
				in.liteSwitched = true
			}
		}
	}
	// differential: no pair / selection / callback change caused by the request
	diffs := rig.Diff(pre, post, rig.DiffOpts{AllowLastRecv: map[string]bool{"udp/" + src.String(): true}})
	if unknownSrc {
		// only the selection and the callbacks are compared: a learned prflx candidate and the check round it
		// starts legitimately add pairs and bump request counters
		// The new candidate also makes the agent run its periodic task at once, at a later instant than its
		// last timer tick: transitions that only time and silence explain (Connected -> Disconnected -> Failed,
		// Disconnected -> Connected after earlier traffic) may surface right here and are not attributed to
		// the request. A selection, a selected-pair callback or Checking -> Connected would be.
		diffs = nil
		becameConnected := false
		seq := target.StateSeq()
		for i := pre.NStates; i < len(seq) && i > 0; i++ {
			if seq[i].State == ice.ConnectionStateConnected && seq[i-1].State != ice.ConnectionStateDisconnected {
				becameConnected = true
			}
		}
		becameFailed := false
		for i := pre.NStates; i < len(seq); i++ {
			if seq[i].State == ice.ConnectionStateFailed {
				becameFailed = true // the failure deadline ran out: the selection is released with it
			}
		}
		selectionMoved := pre.Selected != post.Selected && !(becameFailed && post.Selected == "")
		if selectionMoved || becameConnected || pre.NPairsEv != post.NPairsEv {
			diffs = []string{fmt.Sprintf("selected %q -> %q, state callbacks %d -> %d, pair callbacks %d -> %d", pre.Selected, post.Selected, pre.NStates, post.NStates, pre.NPairsEv, post.NPairsEv)}
		}
	}
	if len(diffs) > 0 && !c.Failed() {
		c.Failf("C05/conflict-changed-state", "conflicting request (role=%s keep=%v) changed observable state: %v; states of %s: %v", role, keep, diffs, target.Name, target.StateSeq())
	}
	if c.Failed() {
		return
	}
	// the next request the agent emits must carry the expected role
	want := in.role[target.Name]
	n0 := in.led.Side[target.Name].SentReqs
	for i := 0; i < 400 && in.led.Side[target.Name].SentReqs == n0; i++ {
		d.S.Advance(d.S.Deltas[1])
		in.led.Update()
	}
	if in.led.Side[target.Name].SentReqs > n0 {
		// a real same-role request of the peer delivered meanwhile cannot happen: only the clock advanced
		got := lastRole(in.led.Side[target.Name].SentRoles)
		if got != want {
			c.Failf("C05/wrong-role-after-conflict", "after role=%s own=%#x theirs=%#x keep=%v the agent sends as %s, expected %s", role, own, theirs, keep, got, want)
		}
	}
}

func describeMsgs(ms []rig.Msg) []string {
	var out []string
	for _, m := range ms {
		out = append(out, fmt.Sprintf("%s/%s err=%d", m.Method, m.Class, m.ErrorCode))
	}
	return out
}

// c05TickBound: a connected agent runs its periodic task every min of the non-zero values among keepalive
// interval, disconnected timeout and failed timeout (public configuration), at most every 2 s by default.
func c05TickBound(k c01Knobs) time.Duration {
	b := 2 * time.Second
	for _, d := range []time.Duration{k.keepalive, k.disc, k.failed, k.checkInterval} {
		if d > 0 && d < b {
			b = d
		}
	}
	if k.keepalive > b {
		// the bound above is what the agent uses; be generous and cover the keepalive period too
		b = k.keepalive
	}
	return b
}
