package checks

import (
	"fmt"
	"net/netip"
	"sort"
	"time"

	"github.com/pion/ice/v4"
	"github.com/pion/stun/v3"

	"verif/sim/core"
	"verif/sim/rig"
	"verif/sim/simnet"
)

func init() {
	core.Register(&core.Spec{ID: "C03", Fn: runC03})
}

// runC03: two real agents (controlling full; controlled full or lite) under the C01 fault space,
// plus an adversary that holds the right credentials and injects early / repeated / low-priority
// USE-CANDIDATE and nomination requests from any address. Every change of the selected pair must be
// justified by the checker's own ledger of wire traffic.
func runC03(c *core.Ctx) {
	if c.T.Bias(1, 12, "one-sided-restart") {
		runC03OneSidedRestart(c)
		return
	}
	if c.T.Bias(1, 8, "renominate-race") {
		runC03RenominateRace(c)
		return
	}
	k := drawC01Knobs(c)
	// Candidates are trickled in a third of the runs: a remote first learned as peer-reflexive is then replaced
	// by the signalled candidate, possibly after its pair was selected. In those runs the priority rule is not
	// judged (the priorities this oracle reads afterwards are no longer those the agent decided on); "validated
	// and nominated" is.
	k.trickle = c.T.Bias(1, 3, "c03trickle")
	if k.blockPct > 40 {
		k.blockPct = 40
	}
	liteOpt := false
	if k.liteB {
		liteOpt = c.T.Bias(1, 2, "liteprio")
	}
	c.Knob("litePrioCheck", liteOpt)
	opts := func() []ice.AgentOption {
		return []ice.AgentOption{
			ice.WithCheckInterval(k.checkInterval), ice.WithKeepaliveInterval(k.keepalive),
			ice.WithDisconnectedTimeout(k.disc), ice.WithFailedTimeout(k.failed),
			ice.WithMaxBindingRequests(uint16(k.maxReq)),
			ice.WithSrflxAcceptanceMinWait(0), ice.WithPrflxAcceptanceMinWait(0),
		}
	}
	cfg := rig.DuoCfg{AddrsA: c01Addrs("10.0.1", k.nA), AddrsB: c01Addrs("10.0.2", k.nB)}
	cfg.OptsA = append(opts(), ice.WithCandidateTypes([]ice.CandidateType{ice.CandidateTypeHost, ice.CandidateTypeServerReflexive}))
	if k.aliasA {
		cfg.AliasA = "198.51.100.1"
	}
	if k.liteB {
		cfg.OptsB = append(opts(), ice.WithICELite(true), ice.WithCandidateTypes([]ice.CandidateType{ice.CandidateTypeHost}))
		if liteOpt {
			cfg.OptsB = append(cfg.OptsB, ice.WithEnableUseCandidateCheckPriority())
		}
	} else {
		cfg.OptsB = append(opts(), ice.WithCandidateTypes([]ice.CandidateType{ice.CandidateTypeHost, ice.CandidateTypeServerReflexive}))
		if k.aliasB {
			cfg.AliasB = "198.51.100.2"
		}
	}
	d, err := rig.NewDuo(c, cfg)
	if err != nil {
		c.Failf("harness/setup", "%v", err)
		return
	}
	d.S.DropW, d.S.DupW, d.S.ReorderW, d.S.AdvanceW = k.dropW, k.dupW, k.reorderW, k.advW
	if c.T.Bias(1, 5, "high-signalled-priorities") {
		// candidate priorities as signalled lie in the upper half of the 32-bit field (an unusual peer; the
		// field is 32 bits wide and the pair formula is defined for all of it)
		d.SignalPrioOffset = 1 << 31
		c.Fault("signalled-priorities-above-2^31")
	}
	for _, ag := range []*rig.AgentH{d.A, d.B} {
		if err := d.Gather(ag); err != nil {
			c.Failf("harness/gather", "%v", err)
			return
		}
	}
	led := rig.NewLedger(d)
	o := &c03Oracle{c: c, d: d, led: led, liteB: k.liteB, litePrio: liteOpt, seen: map[string]int{}, last: map[string]rig.PairEv{}}
	// one run in ten has somebody on the path who appends attributes behind MESSAGE-INTEGRITY
	o.trickle = k.trickle
	o.tamperRun = c.T.Bias(1, 10, "tamper-run")
	c.Knob("tamperRun", o.tamperRun)
	sess := &c01Session{c: c, d: d, k: k, noOracles: true}
	if !k.liteB && c.T.Bias(1, 4, "b-starts-controlling") {
		// B starts in the controlling role too and loses the conflict (tie-breakers fixed so that A keeps the
		// role): from then on it is the controlled agent this check judges - with pairs that were formed, and
		// ranked, while it still believed to be controlling
		if ice.VerifSetTieBreaker(d.A.A, ^uint64(0)) == nil && ice.VerifSetTieBreaker(d.B.A, 1) == nil {
			sess.sameRole = "controlling"
			c.Fault("controlled-agent-started-controlling")
		}
	}
	sess.hook = func(string) {
		if c.Failed() {
			return
		}
		led.Update()
		o.check()
		if c.T.Bias(1, 6, "adversary?") {
			o.adversary()
			o.check()
		}
	}
	sess.generation(0)
	extra := c.T.Range(0, 30, "extra")
	for i := 0; i < extra && !c.Failed(); i++ {
		d.S.StepFair(k.checkInterval)
		sess.hook("connected")
	}
	if k.restart && !c.Failed() {
		// a new generation: fresh credentials and sockets, the ledger judges it by its own traffic only
		o.last = map[string]rig.PairEv{}
		c.Probe("restart")
		sess.restart()
		for i := 0; i < extra && !c.Failed(); i++ {
			d.S.StepFair(k.checkInterval)
			sess.hook("connected")
		}
	}
}

type c03Oracle struct {
	c         *core.Ctx
	d         *rig.Duo
	led       *rig.Ledger
	liteB     bool
	litePrio  bool
	seen      map[string]int
	last      map[string]rig.PairEv
	seq       uint32
	tamperRun bool
	trickle   bool
}

func parseAP(s string) netip.AddrPort { return netip.MustParseAddrPort(s[4:]) }

func (o *c03Oracle) pairPrio(ag *rig.AgentH, controlling bool, ev rig.PairEv) (uint64, bool) {
	snap := rig.TakeSnap(ag)
	var lp, rp uint32
	okL, okR := false, false
	for _, cs := range snap.Locals {
		if cs.Addr == ev.Local {
			lp, okL = cs.Priority, true
		}
	}
	for _, cs := range snap.Remotes {
		if cs.Addr == ev.Remote {
			rp, okR = cs.Priority, true
		}
	}
	if !okL || !okR {
		return 0, false
	}
	if controlling {
		return rig.PairPriority(lp, rp), true
	}
	return rig.PairPriority(rp, lp), true
}

func (o *c03Oracle) check() {
	c, d := o.c, o.d
	for _, ag := range []*rig.AgentH{d.A, d.B} {
		controlling := ag == d.A
		lite := ag == d.B && o.liteB
		side := o.led.Side[ag.Name]
		evs := ag.SelectedSeq()
		for i := o.seen[ag.Name]; i < len(evs); i++ {
			ev := evs[i]
			key := rig.PairKey{L: parseAP(ev.Local), R: parseAP(ev.Remote)}
			c.Logf("selected %s %s<->%s", ag.Name, ev.Local, ev.Remote)
			switch {
			case lite && !controlling:
				if !side.NominatedBy[key] && side.UnprotectedNomBy[key] {
					c.Failf("C03/nominated-by-attribute-behind-integrity", "lite controlled %s selected %s<->%s: the only USE-CANDIDATE/nomination delivered on that pair stood behind the MESSAGE-INTEGRITY of an authentic request", ag.Name, ev.Local, ev.Remote)
					break
				}
				if !side.NominatedBy[key] {
					c.Failf("C03/lite-selected-without-nomination", "lite controlled %s selected %s<->%s but no authentic nomination was delivered on that pair", ag.Name, ev.Local, ev.Remote)
				}
				c.Probe("lite-selection")
			case controlling:
				if !side.Validated[key] {
					c.Failf("C03/controlling-selected-unvalidated", "controlling %s selected %s<->%s without an answered check of its own on that pair", ag.Name, ev.Local, ev.Remote)
				} else if !side.UCAnswered[key] {
					c.Failf("C03/controlling-selected-unnominated", "controlling %s selected %s<->%s but no answered request of its own on that pair carried USE-CANDIDATE", ag.Name, ev.Local, ev.Remote)
				}
			default:
				if side.Validated[key] && !side.NominatedBy[key] && side.UnprotectedNomBy[key] {
					c.Failf("C03/nominated-by-attribute-behind-integrity", "controlled %s selected %s<->%s: the only USE-CANDIDATE/nomination delivered on that pair stood behind the MESSAGE-INTEGRITY of an authentic request (appended on the path, covered by nothing)", ag.Name, ev.Local, ev.Remote)
					break
				}
				if !side.Validated[key] {
					c.Failf("C03/controlled-selected-unvalidated", "controlled %s selected %s<->%s without an answered check of its own on that pair", ag.Name, ev.Local, ev.Remote)
				} else if !side.NominatedBy[key] {
					c.Failf("C03/controlled-selected-unnominated", "controlled %s selected %s<->%s but no authentic USE-CANDIDATE/nomination was delivered on that pair", ag.Name, ev.Local, ev.Remote)
				}
			}
			// priority rule for plain USE-CANDIDATE on the controlled side
			if prev, ok := o.last[ag.Name]; ok && !controlling && (prev.Local != ev.Local || prev.Remote != ev.Remote) {
				c.Probe("controlled-reselection")
				if (!lite || o.litePrio) && !side.NomValueBy[key] && !o.trickle {
					pOld, ok1 := o.pairPrio(ag, false, prev)
					pNew, ok2 := o.pairPrio(ag, false, ev)
					if ok1 && ok2 && pNew < pOld && side.UnprotectedNomBy[key] {
						c.Failf("C03/nominated-by-attribute-behind-integrity", "%s moved its selection to the lower-priority pair %s<->%s; a nomination had been delivered on that pair only behind the MESSAGE-INTEGRITY of an authentic request (covered by nothing)", ag.Name, ev.Local, ev.Remote)
					} else if ok1 && ok2 && pNew < pOld {
						c.Failf("C03/plain-use-candidate-lowered-priority", "%s moved its selection from %s<->%s (prio %d) to %s<->%s (prio %d) on a plain USE-CANDIDATE",
							ag.Name, prev.Local, prev.Remote, pOld, ev.Local, ev.Remote, pNew)
					}
				}
			}
			o.last[ag.Name] = ev
		}
		o.seen[ag.Name] = len(evs)
		if !controlling {
			if side.SentUC > 0 {
				c.Failf("C03/controlled-sent-use-candidate", "controlled agent %s emitted %d Binding requests with USE-CANDIDATE", ag.Name, side.SentUC)
			}
			if lite && side.SentReqs > 0 {
				c.Failf("C03/lite-sent-binding-request", "lite agent %s originated %d Binding requests", ag.Name, side.SentReqs)
			}
		}
	}
}

// adversary injects an authentic request (right username, right integrity, opposite role attribute)
// with USE-CANDIDATE and/or a nomination value on any pair, from any address.
// tamper: somebody on the path (no credentials) copies an authentic Binding request that is in flight towards
// the controlled agent, appends USE-CANDIDATE (or a nomination value) behind its MESSAGE-INTEGRITY, fixes the
// FINGERPRINT and delivers the copy. The appended attribute is covered by nothing: it must not nominate.
func (o *c03Oracle) tamper() bool {
	c, d := o.c, o.d
	ids := hostSockIDs(d.W, d.HA)
	var cands []*simnet.Datagram
	for _, dg := range d.W.InFlight() {
		if !ids[dg.SockID] || dg.Dup {
			continue
		}
		m := rig.Decode(dg.Payload)
		if m.IsSTUN && m.Class == stun.ClassRequest && m.Method == stun.MethodBinding && m.HasIntegrity && !m.UseCandidate && m.Nomination == nil {
			cands = append(cands, dg)
		}
	}
	if len(cands) == 0 {
		return false
	}
	dg := cands[c.T.Choose(len(cands), "tamperwhich")]
	t, v := stun.AttrUseCandidate, []byte(nil)
	if c.T.Bias(1, 3, "tampernom") {
		t, v = stun.AttrType(ice.DefaultNominationAttribute), []byte{0, 0, 0, byte(1 + c.T.Choose(40, "tampernomval"))}
	}
	out, ok := rig.AppendAfterIntegrity(dg.Payload, t, v)
	if !ok {
		return false
	}
	cp := d.W.Inject(dg.Src, dg.Dst, out, "tampered")
	c.Fault("tampered-attribute-behind-integrity")
	c.Logf("tamper: %s appended behind MESSAGE-INTEGRITY of %s", t, d.Tx.Describe(dg))
	_, _ = d.S.Deliver(cp)
	return true
}

// asymmetricResponse: an authentic success response (right transaction id, right integrity) to one of the
// target's own requests that arrives from ANOTHER known remote address than the request went to. It answers no
// check of the pair it arrives on: that pair must not count as validated by it.
func (o *c03Oracle) asymmetricResponse(target, peer *rig.AgentH) bool {
	c, d := o.c, o.d
	side := o.led.Side[target.Name]
	var txs [][stun.TransactionIDSize]byte
	for id := range side.Sent {
		txs = append(txs, id)
	}
	if len(txs) == 0 {
		return false
	}
	sort.Slice(txs, func(i, j int) bool { return side.Sent[txs[i]].Order < side.Sent[txs[j]].Order })
	id := txs[c.T.Choose(len(txs), "asymtx")]
	req := side.Sent[id]
	var others []netip.AddrPort
	for _, cand := range peer.LocalCands() {
		if ap := rig.CandAP(cand); ap != req.R && ap.Addr().Is4() == req.R.Addr().Is4() {
			others = append(others, ap)
		}
	}
	if len(others) == 0 {
		return false
	}
	src := others[c.T.Choose(len(others), "asymsrc")]
	l := req.L
	resp := rig.MsgSpec{Method: stun.MethodBinding, Class: stun.ClassSuccessResponse, TxID: &id, XorAddr: &l, Key: peer.Pwd}
	dg := d.W.Inject(src, req.L, resp.Build(), "asymmetric-response")
	c.Fault("adversary:asymmetric-response")
	c.Logf("adversary: response to a request sent to %s arrives from %s at %s", req.R, src, req.L)
	_, _ = d.S.Deliver(dg)
	return true
}

func (o *c03Oracle) adversary() {
	c, d := o.c, o.d
	if o.tamperRun && c.T.Bias(1, 2, "tamper") && o.tamper() {
		return
	}
	target, peer := d.B, d.A
	if c.T.Bias(1, 4, "attackcontrolling") {
		target, peer = d.A, d.B
	}
	if target.Conn == nil {
		return
	}
	if c.T.Bias(1, 6, "asymmetric-response") && o.asymmetricResponse(target, peer) {
		return
	}
	locals := target.LocalCands()
	if len(locals) == 0 {
		return
	}
	dst := rig.CandAP(locals[c.T.Choose(len(locals), "dstcand")])
	var src netip.AddrPort
	peerLocals := peer.LocalCands()
	if len(peerLocals) > 0 && !c.T.Bias(1, 4, "unknownsrc") {
		src = rig.CandAP(peerLocals[c.T.Choose(len(peerLocals), "srccand")])
	} else {
		src = netip.AddrPortFrom(netip.MustParseAddr("192.0.2.50"), uint16(41000+c.T.Choose(2, "port")))
		c.Probe("adversary-unknown-source")
	}
	o.seq++
	spec := rig.MsgSpec{Method: stun.MethodBinding, Class: stun.ClassRequest, Seq: o.seq,
		Username: rig.Str(target.Ufrag + ":" + peer.Ufrag), Key: target.Pwd}
	prioType := []uint32{126, 110, 100, 1}[c.T.Choose(4, "priotype")]
	spec.Priority = rig.U32(prioType<<24 + 65535<<8 + 255)
	tb := uint64(12345)
	if target == d.A {
		spec.Controlled = &tb
	} else {
		spec.Controlling = &tb
	}
	kind := c.T.Pick([]int{5, 2, 2}, "advkind")
	switch kind {
	case 0:
		spec.UseCandidate = true
	case 1:
		spec.UseCandidate = true
		spec.Nomination = rig.U32(uint32(c.T.Range(1, 50, "nomval")))
	case 2:
		spec.Nomination = rig.U32(uint32(c.T.Range(1, 50, "nomval")))
	}
	dg := d.W.Inject(src, dst, spec.Build(), "adversary")
	c.Fault(fmt.Sprintf("adversary:%d", kind))
	c.Logf("adversary kind=%d %s -> %s (%s)", kind, src, dst, target.Name)
	if res, _ := d.S.Deliver(dg); res != simnet.Delivered {
		c.Probe("adversary-not-delivered")
	}
	_ = time.Second
}
