package checks

import (
	"time"

	"github.com/pion/ice/v4"
	"github.com/pion/stun/v3"

	"verif/sim/core"
	"verif/sim/rig"
	"verif/sim/simnet"
)

// runC03OneSidedRestart: the controlling agent restarts while its nomination is still unanswered, and the new
// generation pairs the very same transport addresses again (a single-port range; the peer keeps its
// credentials and its sockets - a one-sided restart, which the API allows). The answer to the nomination of
// the ENDED generation arrives afterwards, authentic under the unchanged remote password. It answers no
// transaction of the new generation: nothing may be selected, nominated or reported Connected on its account -
// the selected pair needs a check of its own, answered by a transaction-matched response to a request that the
// new generation sent.
func runC03OneSidedRestart(c *core.Ctx) {
	t := c.T
	ci := []time.Duration{50 * time.Millisecond, 200 * time.Millisecond}[t.Choose(2, "ci")]
	c.Knob("scenario", "one-sided-restart-with-nomination-in-flight")
	c.MarkNontrivial()
	opts := func(portRange bool) []ice.AgentOption {
		o := []ice.AgentOption{
			ice.WithCheckInterval(ci), ice.WithKeepaliveInterval(2 * ci),
			ice.WithDisconnectedTimeout(10 * time.Second), ice.WithFailedTimeout(30 * time.Second),
			ice.WithMaxBindingRequests(100), ice.WithHostAcceptanceMinWait(0), ice.WithPrflxAcceptanceMinWait(0),
			ice.WithCandidateTypes([]ice.CandidateType{ice.CandidateTypeHost}), ice.WithDisableActiveTCP(),
		}
		if portRange {
			o = append(o, ice.WithPortRange(6000, 6000))
		}
		return o
	}
	d, err := rig.NewDuo(c, rig.DuoCfg{AddrsA: []string{"10.0.1.10"}, AddrsB: []string{"10.0.2.10"}, OptsA: opts(true), OptsB: opts(false)})
	if err != nil {
		c.Failf("harness/setup", "%v", err)
		return
	}
	A, B := d.A, d.B
	for _, ag := range []*rig.AgentH{A, B} {
		if err := d.Gather(ag); err != nil {
			c.Failf("harness/gather", "%v", err)
			return
		}
	}
	for _, cand := range A.LocalCands() {
		_ = d.Signal(A, B, cand)
	}
	for _, cand := range B.LocalCands() {
		_ = d.Signal(B, A, cand)
	}
	// answers to A's nominating requests stay in flight
	ucTx := map[[stun.TransactionIDSize]byte]bool{}
	var held []*simnet.Datagram
	d.S.Hold = func(dg *simnet.Datagram) bool {
		m := rig.Decode(dg.Payload)
		if !m.IsSTUN {
			return false
		}
		if m.Class == stun.ClassRequest && m.UseCandidate && dg.Src.Addr().String() == "10.0.1.10" {
			ucTx[m.TxID] = true
		}
		if m.Class == stun.ClassSuccessResponse && ucTx[m.TxID] {
			for _, h := range held {
				if h == dg {
					return true
				}
			}
			held = append(held, dg)
			return true
		}
		return false
	}
	A.Conn, _ = A.A.StartDial(B.Ufrag, B.Pwd)
	B.Conn, _ = B.A.StartAccept(A.Ufrag, A.Pwd)
	for i := 0; i < 200 && len(held) == 0 && !c.Failed(); i++ {
		d.S.StepFair(ci / 2)
	}
	if len(held) == 0 {
		c.Probe("one-sided-restart-no-nomination-seen")
		return
	}
	if _, _, ok := A.SelectedPair(); ok {
		c.Probe("one-sided-restart-already-selected")
		return
	}
	// A restarts, B keeps its credentials and sockets
	uf, pw := rig.Creds("A", 1)
	if err := A.A.Restart(uf, pw); err != nil {
		c.Failf("harness/restart", "%v", err)
		return
	}
	A.Ufrag, A.Pwd = uf, pw
	d.S.Settle()
	_ = A.A.SetRemoteCredentials(B.Ufrag, B.Pwd)
	_ = B.A.SetRemoteCredentials(uf, pw)
	if err := d.Gather(A); err != nil {
		c.Failf("harness/gather", "%v", err)
		return
	}
	samePort := false
	for _, lc := range A.LocalCands() {
		samePort = samePort || rig.CandAP(lc).Port() == 6000
	}
	if !samePort {
		c.Probe("one-sided-restart-port-differs")
		return
	}
	for _, cand := range B.LocalCands() {
		_ = d.Signal(B, A, cand)
	}
	d.S.Settle()
	// whatever the new generation has sent so far stays in flight; only the old answers are delivered
	newReqAnswered := false
	d.S.Hold = func(dg *simnet.Datagram) bool { return true }
	pre := rig.TakeSnap(A)
	nStates, nPairs := len(A.StateSeq()), pre.NPairsEv
	c.Fault("answer-to-nomination-of-ended-generation")
	for _, dg := range held {
		d.S.Deliver(dg)
	}
	d.S.Settle()
	post := rig.TakeSnap(A)
	_ = newReqAnswered
	if post.Selected != "" {
		c.Failf("C03/selected-by-answer-of-ended-generation", "A restarted with a nomination in flight; the answer to that nomination (transaction of the ended generation) arrived afterwards and A selected %s, although no check of the new generation has been answered", post.Selected)
		return
	}
	if post.NPairsEv != nPairs {
		c.Failf("C03/selected-by-answer-of-ended-generation", "the answer to a nomination of the ended generation fired a selected-pair callback on A")
		return
	}
	for _, ev := range A.StateSeq()[nStates:] {
		if ev.State == ice.ConnectionStateConnected {
			c.Failf("C03/selected-by-answer-of-ended-generation", "the answer to a nomination of the ended generation made A report Connected")
			return
		}
	}
	for _, p := range post.Pairs {
		if p.State == ice.CandidatePairStateSucceeded || p.Nominated {
			c.Failf("C03/validated-by-answer-of-ended-generation", "after the answer to a request of the ended generation A lists pair %s as state=%s nominated=%v; no request of the new generation has been answered", p.Key(), p.State, p.Nominated)
			return
		}
	}
	c.Probe("answer-of-ended-generation-ignored")
	// the new generation then connects on its own traffic
	d.S.Hold = nil
	for i := 0; i < 300 && !c.Failed(); i++ {
		d.S.StepFair(ci / 2)
		if _, _, ok := A.SelectedPair(); ok {
			c.Probe("one-sided-restart-reconnected")
			break
		}
	}
}

var _ = core.Register
