package checks

import (
	"time"

	"github.com/pion/ice/v4"

	"verif/sim/core"
	"verif/sim/rig"
)

// runC04LateSignal: the silence of the selected remote is the silence of that transport address, whatever
// happens to the candidate object that stands for it. An agent that learnt the peer's address from the peer's
// checks (peer-reflexive) and selected that pair goes silent-wards; the peer's candidate is signalled only
// after the disconnected timeout has passed - it replaces the peer-reflexive one. Nothing has been heard from
// that address meanwhile, so after the following ticks the state is still what the silence says: Disconnected
// (and Failed once disconnected+failed have passed), not Connected again.
func runC04LateSignal(c *core.Ctx) {
	t := c.T
	ci := []time.Duration{50 * time.Millisecond, 100 * time.Millisecond}[t.Choose(2, "ci")]
	disc := []time.Duration{400 * time.Millisecond, time.Second}[t.Choose(2, "disc")]
	failed := []time.Duration{2 * time.Second, 0}[t.Choose(2, "failed")]
	c.Knob("scenario", "signalled-after-silence")
	c.MarkNontrivial()
	opts := func() []ice.AgentOption {
		return []ice.AgentOption{
			ice.WithCheckInterval(ci), ice.WithKeepaliveInterval(2 * ci),
			ice.WithDisconnectedTimeout(disc), ice.WithFailedTimeout(failed),
			ice.WithMaxBindingRequests(100),
			ice.WithPrflxAcceptanceMinWait(0), ice.WithHostAcceptanceMinWait(0),
			ice.WithCandidateTypes([]ice.CandidateType{ice.CandidateTypeHost}), ice.WithDisableActiveTCP(),
		}
	}
	d, err := rig.NewDuo(c, rig.DuoCfg{AddrsA: []string{"10.0.1.10"}, AddrsB: []string{"10.0.2.10"}, OptsA: opts(), OptsB: opts()})
	if err != nil {
		c.Failf("harness/setup", "%v", err)
		return
	}
	for _, ag := range []*rig.AgentH{d.A, d.B} {
		if err := d.Gather(ag); err != nil {
			c.Failf("harness/gather", "%v", err)
			return
		}
	}
	deaf, other := d.A, d.B
	if t.Bias(1, 2, "deafB") {
		deaf, other = d.B, d.A
	}
	for _, cand := range deaf.LocalCands() {
		_ = d.Signal(deaf, other, cand)
	}
	d.A.Conn, _ = d.A.A.StartDial(d.B.Ufrag, d.B.Pwd)
	d.B.Conn, _ = d.B.A.StartAccept(d.A.Ufrag, d.A.Pwd)
	connected := func() bool {
		return deaf.LastState() == ice.ConnectionStateConnected && other.LastState() == ice.ConnectionStateConnected
	}
	for i := 0; i < 300 && !connected(); i++ {
		d.S.StepFair(ci / 2)
	}
	if !connected() {
		c.Probe("late-signal-not-connected")
		return
	}
	silentSince := c.Now()
	silence := func(dur time.Duration) {
		for el := time.Duration(0); el < dur; el += ci {
			for _, dg := range d.W.InFlight() {
				d.W.Drop(dg)
			}
			d.S.Advance(ci)
		}
		for _, dg := range d.W.InFlight() {
			d.W.Drop(dg)
		}
	}
	c.Fault("total-silence")
	silence(disc + 6*ci)
	if deaf.LastState() != ice.ConnectionStateDisconnected {
		c.Probe("late-signal-no-disconnect")
		return
	}
	for _, cand := range other.LocalCands() {
		_ = d.Signal(other, deaf, cand)
	}
	c.Fault("signalled-candidate-replaces-prflx-during-silence")
	nStates := len(deaf.StateSeq())
	extra := 8 * ci
	if failed > 0 && t.Bias(1, 2, "until-failed") {
		extra = failed + 8*ci
	}
	silence(extra)
	total := c.Now() - silentSince
	want := ice.ConnectionStateDisconnected
	if failed > 0 && total > disc+failed+4*ci {
		want = ice.ConnectionStateFailed
	} else if failed > 0 && total > disc+failed-4*ci {
		return // too close to the Failed threshold to call
	}
	for _, ev := range deaf.StateSeq()[nStates:] {
		if ev.State == ice.ConnectionStateConnected {
			c.Failf("C04/state-vs-silence", "%s reported Connected again although nothing was heard from the selected remote for %v (disconnected timeout %v): the only thing that happened was that the peer's candidate was signalled and replaced the peer-reflexive one", deaf.Name, total, disc)
			return
		}
	}
	if st := deaf.LastState(); st != want {
		c.Failf("C04/state-vs-silence", "%s: the selected remote has been silent for %v (disconnected timeout %v, failed timeout %v), the state after the last tick is %s, expected %s", deaf.Name, total, disc, failed, st, want)
		return
	}
	c.Probe("silence-survives-candidate-replacement")
}

var _ = core.Register
