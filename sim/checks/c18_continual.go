package checks

import (
	"errors"
	"fmt"
	"net"
	"net/netip"
	"sort"
	"testing/synctest"
	"time"

	"github.com/pion/ice/v4"

	"verif/sim/core"
	"verif/sim/rig"
	"verif/sim/simnet"
)

// runC18Continual: the same property with the continual gathering policy - the cycle does not end with Complete,
// a watcher of the cycle polls the interface set and gathers again when an address appears. What the statement
// says about cycles still holds: candidates are published only by the cycle that is under way (Restart cancels
// it, returns to New, and nothing is published until GatherCandidates is called again, whatever happens to the
// interfaces meanwhile); a fresh cycle's results are not mixed with the old one's (one watcher: an address that
// appears yields one host candidate, not one per cycle ever started); every published candidate sits on an
// eligible address of an enabled family; every eligible address that appears gets its host candidate.
// Operations (tape): a new interface address appears (eligible, or link-local / on a down interface / refused
// by the filter), Restart, GatherCandidates, time passes.
func runC18Continual(c *core.Ctx) {
	t := c.T
	interval := []time.Duration{100 * time.Millisecond, 500 * time.Millisecond}[t.Choose(2, "interval")]
	v6 := t.Bias(1, 3, "udp6")
	filter := t.Bias(1, 3, "ipfilter")
	// host candidates disabled (server-reflexive only, and no STUN URL to ask): nothing is ever published,
	// whatever addresses appear
	noHost := t.Bias(1, 5, "no-host-type")
	c.Knob("noHost", noHost)
	c.Knob("part", "continual")
	c.Knob("interval", interval.String())
	c.Knob("udp6", v6)
	c.Knob("ipfilter", filter)
	c.MarkNontrivial()
	w := simnet.NewWorld()
	h := w.SimpleHost("A", "10.0.1.10")
	nts := []ice.NetworkType{ice.NetworkTypeUDP4}
	if v6 {
		nts = append(nts, ice.NetworkTypeUDP6)
	}
	refused := func(a netip.Addr) bool { return filter && a.Is4() && a.As4()[3]%2 == 1 }
	ctypes := []ice.CandidateType{ice.CandidateTypeHost}
	if noHost {
		ctypes = []ice.CandidateType{ice.CandidateTypeServerReflexive}
	}
	opts := []ice.AgentOption{ice.WithNetworkTypes(nts), ice.WithCandidateTypes(ctypes),
		ice.WithContinualGatheringPolicy(ice.GatherContinually), ice.WithNetworkMonitorInterval(interval)}
	if filter {
		opts = append(opts, ice.WithIPFilter(func(ip net.IP) bool {
			a, _ := netip.AddrFromSlice(ip)
			return !refused(a.Unmap())
		}))
	}
	ice.VerifSeedGlobalRand(int64(t.Choose(1000, "randseed")))
	ag, err := rig.NewAgent("A", h, time.Now(), opts...)
	if err != nil {
		c.Failf("harness/setup", "%v", err)
		return
	}
	c.Defer(func() {
		done := make(chan struct{})
		go func() { _ = ag.A.Close(); close(done) }()
		synctest.Wait()
	})

	eligible := func(a netip.Addr, up bool) bool {
		if !up || refused(a) || noHost {
			return false
		}
		if a.Is6() {
			return v6 && !a.IsLinkLocalUnicast() && !specialV6(a)
		}
		return true
	}
	type ifAddr struct {
		addr netip.Addr
		ok   bool
	}
	addrs := []ifAddr{{netip.MustParseAddr("10.0.1.10"), eligible(netip.MustParseAddr("10.0.1.10"), true)}}
	active := false // a cycle is under way
	seen := 0       // candidate events already judged
	gen := 0
	nextHost := 20
	settle := func() {
		for i := 0; i < 4; i++ {
			synctest.Wait()
			time.Sleep(interval)
		}
		synctest.Wait()
	}
	// judge what was published since the last call; fresh = addresses that appeared since then
	judge := func(where string, fresh []ifAddr, wholeCycle bool) bool {
		evs := ag.CandSeq()
		got := map[netip.Addr]int{}
		for _, cand := range evs[seen:] {
			if cand == nil {
				continue
			}
			if !active {
				c.Failf("C18/candidate-published-outside-cycle", "%s: %s %s was published although no gathering cycle is under way (state New after Restart, GatherCandidates not called)", where, cand.Type(), rig.CandAddr(cand))
				return false
			}
			ap := rig.CandAP(cand)
			if cand.Type() != ice.CandidateTypeHost || !cand.NetworkType().IsUDP() || noHost {
				c.Failf("C18/candidate-type-not-enabled", "%s: %s %s %s published, only udp host candidates are enabled", where, cand.NetworkType(), cand.Type(), ap)
				return false
			}
			okAddr := false
			for _, a := range addrs {
				if a.addr == ap.Addr() && a.ok {
					okAddr = true
				}
			}
			if !okAddr {
				c.Failf("C18/candidate-on-ineligible-address", "%s: host candidate on %s, which is not an eligible interface address (filter %v, udp6 %v)", where, ap.Addr(), filter, v6)
				return false
			}
			got[ap.Addr()]++
		}
		seen = len(evs)
		if !active {
			if lc := ag.LocalCands(); len(lc) != 0 {
				c.Failf("C18/candidate-published-outside-cycle", "%s: the agent lists %d local candidate(s) (%v) although no gathering cycle is under way", where, len(lc), candList(lc))
				return false
			}
			return true
		}
		want := fresh
		if wholeCycle {
			want = addrs
		}
		for _, a := range want {
			if a.ok && got[a.addr] == 0 {
				c.Failf("C18/missing-host-candidate", "%s: the eligible address %s got no host candidate (cycle %d)", where, a.addr, gen)
				return false
			}
			if a.ok && got[a.addr] > 1 {
				c.Failf("C18/duplicate-host-candidate", "%s: %d host candidates were published for the address %s that appeared once (cycle %d): more than one cycle is gathering", where, got[a.addr], a.addr, gen)
				return false
			}
		}
		return true
	}
	gather := func(where string) bool {
		err := ag.A.GatherCandidates()
		if active {
			if !errors.Is(err, ice.ErrMultipleGatherAttempted) {
				c.Failf("C18/second-gather-accepted", "%s: GatherCandidates while a cycle is under way returned %v", where, err)
				return false
			}
			return true
		}
		if err != nil {
			c.Failf("C18/gather-refused", "%s: GatherCandidates in state New returned %v", where, err)
			return false
		}
		active = true
		gen++
		settle()
		if st, _ := ag.A.GetGatheringState(); st != ice.GatheringStateGathering {
			c.Failf("C18/continual-state", "%s: gathering state %s while the continual cycle is under way", where, st)
			return false
		}
		return judge(where, nil, true)
	}
	if !gather("first gather") {
		return
	}
	steps := t.Range(3, 9, "steps")
	for i := 0; i < steps && !c.Failed(); i++ {
		where := fmt.Sprintf("step %d", i)
		switch t.Pick([]int{5, 2, 2, 1}, "op") {
		case 0:
			var a netip.Addr
			up := true
			kind := t.Pick([]int{6, 1, 1, 1}, "addrkind")
			switch kind {
			case 0:
				a = netip.AddrFrom4([4]byte{10, 0, 1, byte(nextHost)})
			case 1:
				a = netip.MustParseAddr(fmt.Sprintf("fe80::%x", nextHost))
			case 2:
				a = netip.MustParseAddr(fmt.Sprintf("2001:db8:1::%x", nextHost))
			case 3:
				a, up = netip.AddrFrom4([4]byte{10, 0, 2, byte(nextHost)}), false
			}
			nextHost++
			flags := net.FlagUp | net.FlagBroadcast | net.FlagMulticast
			if !up {
				flags = net.FlagBroadcast
			}
			bits := 24
			if a.Is6() {
				bits = 64
			}
			synctest.Wait()
			h.Ifaces = append(h.Ifaces, simnet.IfaceSpec{Name: fmt.Sprintf("eth%d", len(h.Ifaces)), Flags: flags, Addrs: []netip.Prefix{netip.PrefixFrom(a, bits)}})
			na := ifAddr{a, eligible(a, up)}
			addrs = append(addrs, na)
			c.Fault(fmt.Sprintf("interface-address-appears:%d", kind))
			c.Logf("%s: address %s appears (eligible %v, cycle active %v)", where, a, na.ok, active)
			settle()
			if !judge(where+" (address "+a.String()+" appeared)", []ifAddr{na}, false) {
				return
			}
			if active && na.ok {
				c.Probe("continual-new-address-gathered")
			}
			if !active {
				c.Probe("address-appeared-between-restart-and-gather")
			}
		case 1:
			uf, pw := rig.Creds("A", gen+1)
			if err := ag.A.Restart(uf, pw); err != nil {
				c.Failf("harness/restart", "%v", err)
				return
			}
			active = false
			synctest.Wait()
			seen = len(ag.CandSeq()) // whatever was queued before Restart returned belongs to the old cycle
			c.Fault("restart")
			settle()
			if st, _ := ag.A.GetGatheringState(); st != ice.GatheringStateNew {
				c.Failf("C18/state-after-restart", "%s: gathering state %s after Restart", where, st)
				return
			}
			if !judge(where+" (after Restart)", nil, false) {
				return
			}
		case 2:
			if !gather(where) {
				return
			}
		case 3:
			settle()
			if !judge(where+" (time passes)", nil, false) {
				return
			}
		}
	}
	var have []string
	for _, cand := range ag.LocalCands() {
		have = append(have, rig.CandAddr(cand))
	}
	sort.Strings(have)
	c.Logf("final local candidates: %v", have)
}

var _ = core.Register
