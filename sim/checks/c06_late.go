package checks

import (
	"time"

	"github.com/pion/ice/v4"

	"verif/sim/core"
	"verif/sim/rig"
)

// runC06LateSignal: "prflx-then-signalled" with the signalling VERY late. One agent never hears about the
// peer's candidates: it learns the peer's address from the peer's checks (peer-reflexive), validates and
// selects that pair. Then the path is silent until the agent reports Disconnected, and only then the peer's
// candidate is signalled: it supersedes the peer-reflexive one, and the bookkeeping invariants - the selected
// pair is one of the listed pairs and is formed from current candidates, ids and statistics survive the
// supersession - hold in that state as in any other. Traffic resumes afterwards.
func runC06LateSignal(c *core.Ctx) {
	t := c.T
	ci := []time.Duration{50 * time.Millisecond, 100 * time.Millisecond}[t.Choose(2, "ci")]
	disc := []time.Duration{400 * time.Millisecond, time.Second}[t.Choose(2, "disc")]
	c.Knob("scenario", "signalled-while-disconnected")
	c.MarkNontrivial()
	opts := func() []ice.AgentOption {
		return []ice.AgentOption{
			ice.WithCheckInterval(ci), ice.WithKeepaliveInterval(2 * ci),
			ice.WithDisconnectedTimeout(disc), ice.WithFailedTimeout(30 * time.Second),
			ice.WithMaxBindingRequests(100),
			ice.WithSrflxAcceptanceMinWait(0), ice.WithPrflxAcceptanceMinWait(0), ice.WithHostAcceptanceMinWait(0),
			ice.WithCandidateTypes([]ice.CandidateType{ice.CandidateTypeHost}), ice.WithDisableActiveTCP(),
		}
	}
	d, err := rig.NewDuo(c, rig.DuoCfg{AddrsA: c01Addrs("10.0.1", t.Range(1, 2, "nA")), AddrsB: []string{"10.0.2.10"}, OptsA: opts(), OptsB: opts()})
	if err != nil {
		c.Failf("harness/setup", "%v", err)
		return
	}
	for _, ag := range []*rig.AgentH{d.A, d.B} {
		if err := d.Gather(ag); err != nil {
			c.Failf("harness/gather", "%v", err)
			return
		}
	}
	o := &c06Oracle{c: c, d: d, idKey: map[string]map[uint64]string{"A": {}, "B": {}}}
	d.AroundSignal = o.aroundSignal
	// the deaf side (learns nothing by signalling) and the other one
	deaf, other := d.A, d.B
	if t.Bias(1, 2, "deafB") {
		deaf, other = d.B, d.A
	}
	for _, cand := range deaf.LocalCands() {
		_ = d.Signal(deaf, other, cand)
	}
	d.A.Conn, _ = d.A.A.StartDial(d.B.Ufrag, d.B.Pwd)
	d.B.Conn, _ = d.B.A.StartAccept(d.A.Ufrag, d.A.Pwd)
	connected := func() bool {
		return deaf.LastState() == ice.ConnectionStateConnected && other.LastState() == ice.ConnectionStateConnected
	}
	for i := 0; i < 300 && !connected() && !c.Failed(); i++ {
		d.S.StepFair(ci / 2)
		o.invariants()
	}
	if c.Failed() || !connected() {
		c.Probe("late-signal-not-connected")
		return
	}
	prflx := false
	for _, rc := range deaf.RemoteCands() {
		prflx = prflx || rc.Type() == ice.CandidateTypePeerReflexive
	}
	if !prflx {
		c.Probe("late-signal-no-prflx")
		return
	}
	// silence until the deaf side reports Disconnected
	c.Fault("total-silence")
	for el := time.Duration(0); el < disc+10*ci && deaf.LastState() != ice.ConnectionStateDisconnected && !c.Failed(); el += ci {
		for _, dg := range d.W.InFlight() {
			d.W.Drop(dg)
		}
		d.S.Advance(ci)
		o.invariants()
	}
	if c.Failed() || deaf.LastState() != ice.ConnectionStateDisconnected {
		c.Probe("late-signal-no-disconnect")
		return
	}
	for _, dg := range d.W.InFlight() {
		d.W.Drop(dg)
	}
	for _, cand := range other.LocalCands() {
		_ = d.Signal(other, deaf, cand)
		o.invariants()
		if c.Failed() {
			return
		}
	}
	c.Probe("signalled-candidate-supersedes-prflx-while-disconnected")
	for i := 0; i < 40 && !c.Failed(); i++ {
		d.S.StepFair(ci / 2)
		o.invariants()
	}
}

var _ = core.Register
