package checks

import (
	"errors"
	"fmt"
	"net/netip"
	"time"

	"github.com/pion/ice/v4"
	"github.com/pion/stun/v3"

	"verif/sim/core"
	"verif/sim/rig"
	"verif/sim/simnet"
)

func init() {
	core.Register(&core.Spec{ID: "C20", Fn: runC20})
}

type c20Nom struct {
	value     uint32
	pairA     rig.PairKey // as seen from A (local, remote)
	issuedAt  int
	reqDeliv  bool // request delivered to B (authentic)
	respDeliv bool // B's success response delivered to A
	freshAtB  bool // at delivery the value exceeded every nomination value delivered to B before
	validAtB  bool // B's pair was Succeeded when the request arrived
	tx        [stun.TransactionIDSize]byte
}

// runC20: both agents with a host and a server-reflexive (1:1) candidate, so four pairs with different
// priorities. After the ordinary nomination the controlling side renominates over pairs valid on its side;
// requests/responses are reordered, duplicated, lost; the controlled side's own validation of some pairs
// is held back. Oracles: selection on the controlled side moves only on strictly increasing values; at
// quiescence both sides hold the mirror image of the pair carrying the highest nomination issued.
func runC20(c *core.Ctx) {
	t := c.T
	ci := []time.Duration{50 * time.Millisecond, 200 * time.Millisecond}[t.Choose(2, "ci")]
	withOption := !t.Bias(1, 10, "nooption")
	holdBack := t.Choose(5, "holdback") // 0 none, 1 only host-host valid on B, 2 random subset, 3 none but late, 4 everything at first
	faulty := t.Bias(1, 2, "faulty")
	nRenom := t.Range(1, 4, "nrenom")
	// with a keepalive as frequent as the checks, answers to the controlled side's own requests on the
	// previously selected pair are still in flight when a renomination moves the selection
	ka := []time.Duration{time.Second, ci}[t.Choose(2, "keepalive")]
	c.Knob("keepalive", ka.String())
	// both agents ICE lite (legal when both peers are lite): the controlling lite agent runs the ordinary
	// checks and nominations, the controlled one only answers; host candidates only, two addresses on A
	bothLite := t.Bias(1, 6, "both-lite")
	c.Knob("bothLite", bothLite)
	if bothLite {
		withOption = true
		holdBack = 0
	}
	// the nomination value travels under the default attribute type or under one configured on both agents
	nomAttr := []uint16{0xC001, 0xC001, 0xC001, 0xC0FE, 0x8033}[t.Choose(5, "nomination-attribute")]
	c.Knob("nominationAttribute", fmt.Sprintf("%#04x", nomAttr))
	rig.NominationAttr = stun.AttrType(nomAttr)
	c.Defer(func() { rig.NominationAttr = stun.AttrType(0xC001) })
	c.Knob("withOption", withOption)
	c.Knob("holdBack", holdBack)
	// The repeat budget (MaxBindingRequests) is a configuration input: large, the default, or small. With a
	// small budget the harness keeps the loss of every nomination value within it (at most budget-2 copies of
	// a value - requests or their responses - are lost), so that "the highest value issued wins" is still owed;
	// the controlled side's own checks are not held back then, because a pair that used up a small budget
	// there is legitimately Failed.
	budget := uint16(200)
	if holdBack == 0 && !bothLite {
		budget = []uint16{200, 200, 7, 4, 3}[t.Choose(5, "budget")]
	}
	c.Knob("maxBindingRequests", budget)
	c.Knob("faulty", faulty)
	c.Knob("nRenom", nRenom)
	// nomination values: the default generator (1, 2, 3, ...) or an application's own increasing values anywhere
	// below 2^24 - far apart, and around 2^23 where a wrapped ("serial number") comparison would differ from
	// the plain one
	var genVals []uint32
	switch t.Choose(3, "nomvalues") {
	case 1:
		genVals = []uint32{5, 0x900000, 0xFFFFF0, 0xFFFFFF, 0xFFFFFF}
	case 2:
		genVals = []uint32{0x7FFFFF, 0x800000, 0x800001, 0xFFFFFE, 0xFFFFFF}
	}
	c.Knob("nominationValues", fmt.Sprint(genVals))
	genIdx := 0
	gen := ice.DefaultNominationValueGenerator()
	if genVals != nil {
		gen = func() uint32 {
			v := genVals[min(genIdx, len(genVals)-1)]
			genIdx++
			return v
		}
	}
	valueOf := func(k int) uint32 { // the value of the k-th renomination (0-based)
		if genVals == nil {
			return uint32(k + 1)
		}
		return genVals[min(k, len(genVals)-1)]
	}
	opts := func(renom bool) []ice.AgentOption {
		o := []ice.AgentOption{
			ice.WithCheckInterval(ci), ice.WithKeepaliveInterval(ka),
			ice.WithDisconnectedTimeout(10 * time.Second), ice.WithFailedTimeout(30 * time.Second),
			ice.WithMaxBindingRequests(budget),
			ice.WithSrflxAcceptanceMinWait(0), ice.WithPrflxAcceptanceMinWait(0),
			ice.WithCandidateTypes([]ice.CandidateType{ice.CandidateTypeHost, ice.CandidateTypeServerReflexive}),
		}
		if renom {
			o = append(o, ice.WithRenomination(gen))
		}
		if nomAttr != 0xC001 {
			o = append(o, ice.WithNominationAttribute(nomAttr))
		}
		if bothLite {
			o = append(o, ice.WithICELite(true), ice.WithCandidateTypes([]ice.CandidateType{ice.CandidateTypeHost}))
		}
		return o
	}
	duoCfg := rig.DuoCfg{AddrsA: []string{"10.0.1.10"}, AddrsB: []string{"10.0.2.10"},
		AliasA: "198.51.100.1", AliasB: "198.51.100.2", OptsA: opts(withOption), OptsB: opts(true)}
	if bothLite {
		duoCfg = rig.DuoCfg{AddrsA: []string{"10.0.1.10", "10.0.1.11"}, AddrsB: []string{"10.0.2.10", "10.0.2.11"}, OptsA: opts(true), OptsB: opts(true)}
	}
	d, err := rig.NewDuo(c, duoCfg)
	if err != nil {
		c.Failf("harness/setup", "%v", err)
		return
	}
	for _, ag := range []*rig.AgentH{d.A, d.B} {
		if err := d.Gather(ag); err != nil {
			c.Failf("harness/gather", "%v", err)
			return
		}
	}
	led := rig.NewLedger(d)
	// In a third of the runs A's server-reflexive candidate is trickled late: B first learns that address as a
	// peer-reflexive candidate from A's checks, and the signalled candidate replaces it in the middle of the
	// renominations (possibly while a nomination of such a pair is waiting for the pair to become valid).
	var lateCand ice.Candidate
	lateTrickle := budget >= 200 && t.Bias(1, 3, "late-trickle")
	c.Knob("lateTrickle", lateTrickle)
	for _, cand := range d.A.LocalCands() {
		if lateTrickle && cand.Type() == ice.CandidateTypeServerReflexive && lateCand == nil {
			lateCand = cand
			continue
		}
		_ = d.Signal(d.A, d.B, cand)
	}
	for _, cand := range d.B.LocalCands() {
		_ = d.Signal(d.B, d.A, cand)
	}
	d.S.Settle()
	if d.A.Conn, err = d.A.A.StartDial(d.B.Ufrag, d.B.Pwd); err != nil {
		c.Failf("harness/start", "%v", err)
		return
	}
	if d.B.Conn, err = d.B.A.StartAccept(d.A.Ufrag, d.A.Pwd); err != nil {
		c.Failf("harness/start", "%v", err)
		return
	}
	d.S.Settle()

	// hold back B's own validation: drop B's Binding requests on pairs outside the allowed set
	bHost := netip.MustParseAddr("10.0.2.10")
	aHost := netip.MustParseAddr("10.0.1.10")
	allowed := map[[2]netip.Addr]bool{}
	bIPs := []netip.Addr{bHost, netip.MustParseAddr("198.51.100.2")}
	aIPs := []netip.Addr{aHost, netip.MustParseAddr("198.51.100.1")}
	switch holdBack {
	case 1:
		allowed[[2]netip.Addr{bHost, aHost}] = true
	case 2:
		for _, b := range bIPs {
			for _, a := range aIPs {
				if t.Bias(1, 2, "allow") {
					allowed[[2]netip.Addr{b, a}] = true
				}
			}
		}
		allowed[[2]netip.Addr{bIPs[t.Choose(2, "b")], aIPs[t.Choose(2, "a")]}] = true
	}
	holding := holdBack == 1 || holdBack == 2 || holdBack == 4
	// mode 4: B validates nothing at first, so the ordinary nomination reaches it before the pair is valid
	// there; after a few steps its checks go through
	releaseAt := -1
	if holdBack == 4 {
		releaseAt = t.Range(2, 12, "releaseat")
	}
	bSocks := func() map[int]bool { return hostSockIDs(d.W, d.HB) }
	filterB := func() {
		if !holding {
			return
		}
		ids := bSocks()
		for _, dg := range d.W.InFlight() {
			if !ids[dg.SockID] {
				continue
			}
			m := rig.Decode(dg.Payload)
			if m.IsSTUN && m.Class == stun.ClassRequest && !allowed[[2]netip.Addr{dg.Src.Addr(), dg.Dst.Addr()}] {
				d.W.Drop(dg)
				c.Fault("hold-back-controlled-check")
			}
		}
	}

	// per-delivery bookkeeping of nominations at B
	var noms []*c20Nom
	byTx := map[[stun.TransactionIDSize]byte]*c20Nom{}
	byValue := map[uint32]*c20Nom{}
	var maxDeliveredAtB uint32
	bSnapBefore := func() rig.Snap { return rig.TakeSnap(d.B) }
	var preB rig.Snap
	prev := d.S.AfterDeliver
	d.S.AfterDeliver = func(dg *simnet.Datagram, res simnet.DeliverResult, to *simnet.Sock) {
		prev(dg, res, to)
		if res != simnet.Delivered || to == nil {
			return
		}
		m := rig.Decode(dg.Payload)
		if !m.IsSTUN {
			return
		}
		if to.Host() == d.HB && m.Class == stun.ClassRequest && m.Nomination != nil && byTx[m.TxID] == nil {
			// a repetition of a renomination (same value, new transaction)
			if n := byValue[*m.Nomination]; n != nil {
				byTx[m.TxID] = n
				c.Probe("renomination-repeated-on-the-wire")
			}
		}
		if n := byTx[m.TxID]; n != nil {
			if to.Host() == d.HB && m.Class == stun.ClassRequest {
				if !n.reqDeliv {
					n.reqDeliv = true
					n.freshAtB = n.value > maxDeliveredAtB
					for _, p := range preB.Pairs {
						if p.Local == "udp/"+dg.Dst.String() && p.Remote == "udp/"+dg.Src.String() {
							n.validAtB = p.State == ice.CandidatePairStateSucceeded
						}
					}
					if !n.validAtB {
						c.Probe("nomination-before-controlled-validated")
					}
					if !n.freshAtB {
						c.Probe("stale-nomination-delivered")
					}
				}
				if n.value > maxDeliveredAtB {
					maxDeliveredAtB = n.value
				}
			}
			if to.Host() == d.HA && m.Class == stun.ClassSuccessResponse {
				n.respDeliv = true
			}
		}
	}

	// nomination requests and their responses are reordered and duplicated but never lost: pion sends each
	// renomination once, so a lost one can never be "the latest that wins"
	// In "lossy" runs the nomination requests and their responses are lost like anything else (a nomination
	// is repeated until it is answered, so the highest one issued still wins once the faults have stopped);
	// otherwise they are only reordered and duplicated.
	lossy := t.Bias(1, 2, "lose-nominations")
	c.Knob("loseNominations", lossy)
	lostBy := map[uint32]int{}
	// mayLose: the loss of this datagram stays within the repeat budget of the nomination value it carries
	// (or answers); datagrams that carry no nomination value are not limited
	mayLose := func(dg *simnet.Datagram) bool {
		if budget >= 200 {
			return true
		}
		m := rig.Decode(dg.Payload)
		if !m.IsSTUN {
			return true
		}
		var v uint32
		switch {
		case m.Class == stun.ClassRequest && m.Nomination != nil:
			v = *m.Nomination
		case byTx[m.TxID] != nil:
			v = byTx[m.TxID].value
		default:
			return true
		}
		if lostBy[v] >= int(budget)-2 {
			return false
		}
		lostBy[v]++
		return true
	}
	d.S.CanDrop = func(dg *simnet.Datagram) bool {
		if lossy {
			return mayLose(dg)
		}
		m := rig.Decode(dg.Payload)
		return !(m.IsSTUN && (byTx[m.TxID] != nil || m.Nomination != nil))
	}
	// an outage of the nomination traffic: while it lasts every request that carries a nomination value is lost
	// on its way to the controlled side (within the budget of its value), so that a renomination is issued
	// while earlier ones are still unanswered and being repeated
	outage := lossy && budget < 200 && t.Bias(1, 2, "nomination-outage")
	c.Knob("nominationOutage", outage)
	filterNom := func() {
		if !outage {
			return
		}
		for _, dg := range d.W.InFlight() {
			m := rig.Decode(dg.Payload)
			if m.IsSTUN && m.Class == stun.ClassRequest && m.Nomination != nil && mayLose(dg) {
				d.W.Drop(dg)
				c.Fault("nomination-outage-loss")
			}
		}
	}
	o := &c20Oracle{c: c, d: d, led: led, noms: &noms}
	step := func(fair bool) {
		filterB()
		if !fair {
			filterNom()
		}
		preB = bSnapBefore()
		if fair {
			d.S.StepFair(ci / 2)
		} else {
			d.S.StepFaulty()
		}
		led.Update()
		o.afterStep()
		_, _, selA := d.A.SelectedPair()
		_, _, selB := d.B.SelectedPair()
		c.State(fmt.Sprintf("A=%s/%v B=%s/%v noms=%d", d.A.LastState(), selA, d.B.LastState(), selB, len(noms)))
	}

	// 1. ordinary connection (loss-free apart from the held-back checks)
	connected := func() bool {
		return d.A.LastState() == ice.ConnectionStateConnected && d.B.LastState() == ice.ConnectionStateConnected
	}
	for i := 0; i < 600 && !connected() && !c.Failed(); i++ {
		if i == releaseAt {
			holding = false
		}
		step(true)
	}
	if !connected() {
		c.Probe("not-connected")
		return
	}
	// API contract
	la, ra := c20Cands(d.A, 0)
	if err := d.B.A.RenominateCandidate(la, ra); !errors.Is(err, ice.ErrOnlyControllingAgentCanRenominate) {
		c.Failf("C20/controlled-can-renominate", "RenominateCandidate on the controlled agent returned %v", err)
		return
	}
	if !withOption {
		if la != nil {
			if err := d.A.A.RenominateCandidate(la, ra); !errors.Is(err, ice.ErrRenominationNotEnabled) {
				c.Failf("C20/renominate-without-option", "RenominateCandidate without the option returned %v", err)
			}
		}
		return
	}
	for i := 0; i < 10; i++ {
		step(true)
	}
	if holdBack == 3 {
		holding = false
	}

	// 2. renominations under faults
	d.S.DropW, d.S.DupW, d.S.ReorderW, d.S.AdvanceW = 0, 0, 0, 15
	if faulty {
		d.S.DropW, d.S.DupW, d.S.ReorderW = 8, 10, 30
	}
	issue := func() {
		snapA := rig.TakeSnap(d.A)
		var valid []rig.PairSnap
		for _, p := range snapA.Pairs {
			if p.State == ice.CandidatePairStateSucceeded {
				valid = append(valid, p)
			}
		}
		if len(valid) == 0 {
			return
		}
		p := valid[c.T.Choose(len(valid), "renompair")]
		lc, rc := c20Find(d.A, p.Local, p.Remote)
		if lc == nil || rc == nil {
			return
		}
		before := map[uint64]bool{}
		for _, q := range d.W.InFlight() {
			before[q.ID] = true
		}
		if err := d.A.A.RenominateCandidate(lc, rc); err != nil {
			c.Failf("C20/renominate-refused", "RenominateCandidate(%s) on a controlling agent with the option: %v", p.Key(), err)
			return
		}
		d.S.Settle()
		want := valueOf(len(noms))
		found := false
		for _, q := range d.W.InFlight() {
			if before[q.ID] {
				continue
			}
			m := rig.Decode(q.Payload)
			if m.IsSTUN && m.Class == stun.ClassRequest && m.Nomination != nil {
				found = true
				if *m.Nomination != want || !m.UseCandidate {
					c.Failf("C20/nomination-value-on-wire", "renomination #%d went out with nomination value %d (USE-CANDIDATE=%v)", want, *m.Nomination, m.UseCandidate)
				}
				n := &c20Nom{value: *m.Nomination, pairA: rig.PairKey{L: q.Src, R: q.Dst}, issuedAt: c.Step, tx: m.TxID}
				if "udp/"+q.Src.String() != p.Local || "udp/"+q.Dst.String() != p.Remote {
					c.Failf("C20/nomination-on-wrong-pair", "renomination of %s was sent %s->%s", p.Key(), q.Src, q.Dst)
				}
				noms = append(noms, n)
				byTx[m.TxID] = n
				byValue[n.value] = n
			}
		}
		if !found && !c.Failed() {
			c.Failf("C20/no-nomination-request", "RenominateCandidate(%s) returned nil but no request with a nomination value left the agent", p.Key())
		}
		c.Logf("renominate #%d %s", want, p.Key())
		c.Fault("renominate")
	}
	trickleAt := -1
	if lateCand != nil {
		trickleAt = c.T.Choose(nRenom, "trickle-after")
	}
	for r := 0; r < nRenom && !c.Failed(); r++ {
		issue()
		n := c.T.Range(0, 25, "between")
		if outage && n > 8 {
			n /= 4 // the next renomination comes while this one is still being repeated
		}
		at := -1
		if r == trickleAt {
			at = c.T.Range(0, n, "trickle-step")
		}
		for i := 0; i <= n && !c.Failed(); i++ {
			if i == at {
				_ = d.Signal(d.A, d.B, lateCand)
				lateCand = nil
				c.Fault("late-trickled-candidate-replaces-prflx")
			}
			if i < n {
				step(false)
			}
		}
		if holdBack == 2 && c.T.Bias(1, 2, "releasehold") {
			holding = false
		}
		if outage && c.T.Bias(1, 3, "outage-ends") {
			outage = false
		}
	}
	if c.Failed() {
		return
	}
	// 3. fair, loss-free suffix: everything still in flight is delivered, B's validation is no longer held back
	holding = false
	if lateCand != nil {
		_ = d.Signal(d.A, d.B, lateCand)
	}
	// "when the exchange has quiesced": the backlog of the fault phase (duplicates, delayed datagrams, keepalives
	// as frequent as the checks) is delivered without the clock advancing, so the suffix lasts until nothing
	// is in flight any more - and at least 200 steps, so that ticks on both sides have run. A run whose backlog
	// is not drained within the step budget is not judged.
	// Nor is an instant at which nothing is in flight quiescence: the agents' timers are still owed (a
	// controlled side that answered the latest nomination before its pair was valid validates the pair on
	// the controlling side's next keepalive), so the suffix also lasts three simulated seconds - several
	// keepalive and check intervals - beyond the end of the faults.
	drained := false
	suffixFrom := c.Now()
	for i := 0; i < 6000 && !c.Failed(); i++ {
		step(true)
		if i > 200 && c.Now()-suffixFrom >= 3*time.Second && len(d.S.Eligible()) == 0 {
			drained = true
			break
		}
	}
	if c.Failed() {
		return
	}
	if !drained {
		c.Probe("fair-suffix-not-drained")
		return
	}
	o.final()
}

func c20Cands(a *rig.AgentH, _ int) (ice.Candidate, ice.Candidate) {
	l := a.LocalCands()
	r := a.RemoteCands()
	if len(l) == 0 || len(r) == 0 {
		return nil, nil
	}
	return l[0], r[0]
}

func c20Find(a *rig.AgentH, local, remote string) (ice.Candidate, ice.Candidate) {
	var lc, rc ice.Candidate
	for _, x := range a.LocalCands() {
		if rig.CandAddr(x) == local {
			lc = x
		}
	}
	for _, x := range a.RemoteCands() {
		if rig.CandAddr(x) == remote {
			rc = x
		}
	}
	return lc, rc
}

type c20Oracle struct {
	c     *core.Ctx
	d     *rig.Duo
	led   *rig.Ledger
	noms  *[]*c20Nom
	seenB int
	lastB *rig.PairEv
}

// afterStep: the controlled side's selection moves only for a nomination whose value was strictly
// greater than every value delivered before it.
func (o *c20Oracle) afterStep() {
	c, d := o.c, o.d
	evs := d.B.SelectedSeq()
	for ; o.seenB < len(evs); o.seenB++ {
		ev := evs[o.seenB]
		if o.lastB != nil && (o.lastB.Local != ev.Local || o.lastB.Remote != ev.Remote) {
			// a re-selection on the controlled side: which nominations were delivered on the new pair?
			key := rig.PairKey{L: parseAP(ev.Remote), R: parseAP(ev.Local)} // as seen from A
			fresh, any := false, false
			for _, n := range *o.noms {
				if n.pairA == key && n.reqDeliv {
					any = true
					if n.freshAtB {
						fresh = true
					}
				}
			}
			c.Probe("controlled-switched")
			switch {
			case !any && len(*o.noms) > 0:
				c.Failf("C20/switch-without-nomination", "controlled side moved its selection to %s<->%s, a pair on which no nomination value was delivered", ev.Local, ev.Remote)
			case any && !fresh:
				c.Failf("C20/switch-on-stale-nomination", "controlled side moved its selection to %s<->%s, but every nomination delivered on that pair carried a value not greater than one delivered earlier", ev.Local, ev.Remote)
			}
		}
		e := ev
		o.lastB = &e
	}
}

func (o *c20Oracle) final() {
	c, d := o.c, o.d
	noms := *o.noms
	if len(noms) == 0 {
		return
	}
	// the highest nomination the controlling side issued; in the loss-free suffix it is retransmitted
	// by nobody (pion sends each renomination once), so it counts only if request and response arrived
	var top *c20Nom
	for _, n := range noms {
		if n.reqDeliv && n.respDeliv && (top == nil || n.value > top.value) {
			top = n
		}
	}
	if last := noms[len(noms)-1]; top != last {
		// "the highest nomination value the controlling agent issued": it is repeated until answered, so after
		// the loss-free suffix its request and its response have been delivered
		c.Failf("C20/highest-nomination-never-completed", "renomination %d (the highest issued) was never completed although the faults stopped: request delivered=%v response delivered=%v; highest completed: %v",
			last.value, last.reqDeliv, last.respDeliv, func() any {
				if top == nil {
					return "none"
				}
				return top.value
			}())
		return
	}
	la, ra, oka := d.A.SelectedPair()
	lb, rb, okb := d.B.SelectedPair()
	if !oka || !okb {
		c.Failf("C20/no-selection", "selection missing at quiescence: A=%v B=%v", oka, okb)
		return
	}
	c.Logf("final A=%v->%v B=%v->%v", la, ra, lb, rb)
	if top == nil {
		c.Probe("no-renomination-completed")
		if la != rb || ra != lb {
			c.Failf("C20/divergence-without-completed-renomination", "no renomination completed, yet A=%v->%v and B=%v->%v are not mirror images", la, ra, lb, rb)
		}
		return
	}
	c.Probe("renomination-completed")
	allDelivered := true
	for _, n := range noms {
		if !n.reqDeliv || !n.respDeliv {
			allDelivered = false
		}
	}
	tag := fmt.Sprintf("top=%d valid-at-arrival=%v fresh=%v all-delivered=%v", top.value, top.validAtB, top.freshAtB, allDelivered)
	if lb != top.pairA.R || rb != top.pairA.L {
		cls := "C20/controlled-not-on-latest-nomination"
		if !top.validAtB {
			cls += "/nominated-before-valid"
		} else if !top.freshAtB {
			cls += "/arrived-after-higher-value"
		}
		c.Failf(cls, "highest completed nomination %d is on A-pair %v->%v, controlled side holds %v->%v (%s)", top.value, top.pairA.L, top.pairA.R, lb, rb, tag)
		return
	}
	if la != top.pairA.L || ra != top.pairA.R {
		c.Failf("C20/controlling-not-on-latest-nomination", "highest completed nomination %d is on %v->%v, controlling side holds %v->%v (%s)", top.value, top.pairA.L, top.pairA.R, la, ra, tag)
		return
	}
}
