package checks

import (
	"fmt"
	"sync/atomic"
	"testing/synctest"
	"time"

	"github.com/pion/ice/v4"

	"verif/sim/core"
	"verif/sim/rig"
	"verif/sim/sched"
)

// c08TaskloopSites are the park sites of the task loop: between them lie the hand-off of a task, its start,
// its completion, the closing flag and the loop's exit.
var c08TaskloopSites = []string{
	"taskloop.runLoop.beforeOnClose", "taskloop.runLoop.top", "taskloop.runLoop.beforeTask", "taskloop.runLoop.afterTask",
	"taskloop.Close.entry", "taskloop.Close.beforeWait", "taskloop.Run.entry", "taskloop.Run.beforeSelect", "taskloop.Run.afterHandoff",
	"harness.c08.start",
}

// runC08Sched: API calls IN PROGRESS while Close runs, interleaved by the goroutine scheduler at the task
// loop's park sites (the cut-position runs place Close between operations; here it lands between the hand-off
// of a call's task and its start, between its end and its acknowledgement, and so on). Oracle: once nothing
// is parked any more every call has returned, Close has returned, a call that reported success delivered its
// result, and later calls fail at once.
func runC08Sched(c *core.Ctx) {
	t := c.T
	c.Knob("part", "sched")
	ci := 100 * time.Millisecond
	opts := func() []ice.AgentOption {
		return []ice.AgentOption{ice.WithCheckInterval(ci), ice.WithKeepaliveInterval(500 * time.Millisecond),
			ice.WithCandidateTypes([]ice.CandidateType{ice.CandidateTypeHost}), ice.WithMaxBindingRequests(100)}
	}
	d, err := rig.NewDuo(c, rig.DuoCfg{AddrsA: []string{"10.0.1.10"}, AddrsB: []string{"10.0.2.10"}, OptsA: opts(), OptsB: opts()})
	if err != nil {
		c.Failf("harness/setup", "%v", err)
		return
	}
	A, B := d.A, d.B
	for _, ag := range []*rig.AgentH{A, B} {
		if err := d.Gather(ag); err != nil {
			c.Failf("harness/gather", "%v", err)
			return
		}
	}
	for _, cand := range B.LocalCands() {
		_ = d.Signal(B, A, cand)
	}
	d.S.Settle()
	started := t.Bias(1, 2, "started")
	c.Knob("started", started)
	if started {
		A.Conn, _ = A.A.StartDial(B.Ufrag, B.Pwd)
		d.S.Settle()
	}
	// the closer may arrive together with the agent's own check tick (whose task sends on the candidate
	// sockets), and those sockets may block every write until somebody aborts it: Close then lands between the
	// hand-off of a task that is about to block in I/O and its start
	closeAtTick := started && t.Bias(1, 2, "close-at-tick")
	blockW := started && t.Bias(1, 2, "block-writes")
	c.Knob("closeAtTick", closeAtTick)
	c.Knob("blockWrites", blockW)
	if blockW {
		for _, so := range d.W.Sockets() {
			if so.Host() == d.HA && so.Tag != "service" && !so.Closed() {
				so.SetBlockWrites(true)
			}
		}
		c.Fault("candidate-socket-writes-block")
	}
	s := sched.Install(c, c08TaskloopSites)

	type call struct {
		name string
		done atomic.Bool
		err  error
		ok   bool // a nil error came with the result the call exists for
	}
	var calls []*call
	spawn := func(name string, f func() (error, bool)) {
		cl := &call{name: name}
		calls = append(calls, cl)
		go func() {
			s.Yield("harness.c08.start")
			cl.err, cl.ok = f()
			cl.done.Store(true)
		}()
	}
	menu := []struct {
		name string
		f    func() (error, bool)
	}{
		{"GetLocalUserCredentials", func() (error, bool) { u, p, err := A.A.GetLocalUserCredentials(); return err, u != "" && p != "" }},
		{"GetRemoteUserCredentials", func() (error, bool) { _, _, err := A.A.GetRemoteUserCredentials(); return err, true }},
		{"GetLocalCandidates", func() (error, bool) { l, err := A.A.GetLocalCandidates(); return err, len(l) > 0 }},
		{"GetRemoteCandidates", func() (error, bool) { l, err := A.A.GetRemoteCandidates(); return err, len(l) > 0 }},
		{"GetGatheringState", func() (error, bool) { _, err := A.A.GetGatheringState(); return err, true }},
		{"SetRemoteCredentials", func() (error, bool) { return A.A.SetRemoteCredentials(B.Ufrag, B.Pwd), true }},
		{"GetCandidatePairsStats", func() (error, bool) { _ = A.A.GetCandidatePairsStats(); return nil, true }},
	}
	n := t.Range(1, 4, "callers")
	c.Knob("callers", n)
	for i := 0; i < n; i++ {
		m := menu[t.Choose(len(menu), "call")]
		spawn(fmt.Sprintf("%s#%d", m.name, i), m.f)
	}
	nClose := t.Range(1, 2, "closers")
	var closers []*call
	for i := 0; i < nClose; i++ {
		graceful := t.Bias(1, 2, "graceful")
		cl := &call{name: fmt.Sprintf("Close#%d(graceful=%v)", i, graceful)}
		closers = append(closers, cl)
		go func() {
			if closeAtTick {
				time.Sleep(ci)
			}
			s.Yield("harness.c08.start")
			if graceful {
				cl.err = A.A.GracefulClose()
			} else {
				cl.err = A.A.Close()
			}
			cl.done.Store(true)
		}()
	}
	c.Fault("close-interleaved-with-calls-in-progress")
	steps := 0
	for round := 0; round < 30; round++ { // up to 1.5 s of simulated time: the bound C08 allows Close
		steps += s.Run(4000)
		time.Sleep(50 * time.Millisecond) // timers of the agent (none is owed after Close)
		synctest.Wait()
		closed := true
		for _, cl := range closers {
			closed = closed && cl.done.Load()
		}
		if s.NumParked() == 0 && closed {
			break
		}
	}
	if s.NumParked() > 0 {
		c.Failf("C08/sched/never-quiesces", "goroutines keep arriving at the task loop's sites after %d scheduling steps: %s", steps, s.Describe())
		return
	}
	for _, cl := range closers {
		if !cl.done.Load() {
			c.Failf("C08/sched/close-blocked", "%s has not returned although no goroutine is waiting to be scheduled (%d steps)", cl.name, steps)
			return
		}
	}
	for _, cl := range calls {
		if !cl.done.Load() {
			c.Failf("C08/sched/call-blocked-by-close", "%s was in progress while the agent was closed and has not returned after Close returned (%d scheduling steps, nothing left to schedule)", cl.name, steps)
			return
		}
		if cl.err == nil && !cl.ok {
			c.Failf("C08/sched/call-succeeds-without-result", "%s, in progress while the agent was closed, reported success without a result", cl.name)
			return
		}
		if cl.err == nil {
			c.Probe("call-in-progress-completed")
		} else {
			c.Probe("call-in-progress-refused")
		}
	}
	s.Uninstall()
	// final: later calls fail at once
	late := &call{name: "GetLocalCandidates after Close"}
	go func() { _, late.err = A.A.GetLocalCandidates(); late.done.Store(true) }()
	time.Sleep(time.Millisecond)
	synctest.Wait()
	if !late.done.Load() || late.err == nil {
		c.Failf("C08/sched/not-final", "GetLocalCandidates after Close returned: done=%v err=%v", late.done.Load(), late.err)
		return
	}
	c.MarkNontrivial()
}
