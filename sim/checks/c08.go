package checks

import (
	"context"
	"errors"
	"fmt"
	"strings"
	"sync"
	"sync/atomic"
	"testing/synctest"
	"time"

	"github.com/pion/ice/v4"

	"verif/sim/core"
	"verif/sim/rig"
	"verif/sim/simnet"
)

func init() {
	core.Register(&core.Spec{ID: "C08", Fn: runC08, HangIsViolation: true})
}

const c08Positions = 48 // run index = base*c08Positions + cut position

type c08Caller struct {
	name string
	done atomic.Bool
	err  error
}

// runC08 (fault enumeration): run index r = (base sequence r/48, cut position r%48). The base operation
// sequence (construct, gather, signal, start/Dial/Accept, traffic, Restart, traffic) is drawn from a PRNG
// derived from the base index only, so all 48 runs of a base share it and EVERY position of it receives a
// Close/GracefulClose; the closer kind, the armed socket faults and the pending callers are drawn per run.
func runC08(c *core.Ctx) {
	// run index = base*(c08Positions+4) + slot: slots 0..47 are the cut positions of the base sequence,
	// the four extra slots are close-during-gathering runs
	if c.Run%(c08Positions+4) >= c08Positions {
		if c.Run%(c08Positions+4) == c08Positions+3 && (c.Run/(c08Positions+4))%2 == 0 {
			// every other base gives one of its four gather slots to a scheduler run
			runC08Sched(c)
			return
		}
		runC08Gather(c)
		return
	}
	base, cut := c.Run/(c08Positions+4), c.Run%(c08Positions+4)
	bt := c.T.Sub(c.Seed, "C08/base", base)
	nA := bt.Range(1, 2, "nA")
	nB := bt.Range(1, 2, "nB")
	aliasA := bt.Bias(1, 3, "aliasA")
	ci := []time.Duration{50 * time.Millisecond, 200 * time.Millisecond}[bt.Choose(2, "ci")]
	blocking := bt.Bias(1, 2, "blockingstart")
	restart := bt.Bias(1, 3, "restart")
	warm := bt.Range(0, 5, "warm")
	n1 := bt.Range(4, 18, "n1")
	n2 := bt.Range(2, 10, "n2")
	writes := bt.Bias(1, 2, "writes")

	kind := c.T.Choose(9, "closekind")
	blockWrites := c.T.Bias(1, 3, "blockwrites")
	closeErr := c.T.Bias(1, 4, "closeerr")
	// the application's state handler: 1 = slow (states queue up behind it), 2 = reacts to Closed by calling the
	// idempotent Close itself, 3 = both
	hmode := c.T.Pick([]int{3, 1, 1, 1}, "statehandler")
	slowHandler, reenter := hmode&1 != 0, hmode&2 != 0
	c.Knob("base", base)
	c.Knob("cut", cut)
	c.Knob("kind", kind)
	c.Knob("blockWrites", blockWrites)
	c.Knob("closeErr", closeErr)
	c.Knob("blockingStart", blocking)
	c.MarkNontrivial()

	opts := func() []ice.AgentOption {
		return []ice.AgentOption{ice.WithCheckInterval(ci), ice.WithKeepaliveInterval(500 * time.Millisecond),
			ice.WithCandidateTypes([]ice.CandidateType{ice.CandidateTypeHost, ice.CandidateTypeServerReflexive}),
			ice.WithSrflxAcceptanceMinWait(0), ice.WithMaxBindingRequests(100)}
	}
	cfg := rig.DuoCfg{AddrsA: c01Addrs("10.0.1", nA), AddrsB: c01Addrs("10.0.2", nB), OptsA: opts(), OptsB: opts()}
	if aliasA {
		cfg.AliasA = "198.51.100.1"
	}
	d, err := rig.NewDuo(c, cfg)
	if err != nil {
		c.Failf("harness/setup", "%v", err)
		return
	}
	A, B := d.A, d.B
	var reentered, reenterDone atomic.Bool
	if hmode != 0 {
		c.Knob("statehandler", hmode)
		A.OnState = func(st ice.ConnectionState) {
			if st == ice.ConnectionStateClosed {
				if reenter {
					reentered.Store(true)
					_ = A.A.Close()
					reenterDone.Store(true)
				}
				return
			}
			if slowHandler {
				time.Sleep(30 * time.Millisecond)
			}
		}
	}
	var callers []*c08Caller
	var mu sync.Mutex
	spawn := func(name string, f func() error) *c08Caller {
		cl := &c08Caller{name: name}
		mu.Lock()
		callers = append(callers, cl)
		mu.Unlock()
		go func() {
			cl.err = f()
			cl.done.Store(true)
		}()
		return cl
	}
	signalled := map[string]bool{}
	signalNew := func() {
		for _, pr := range [][2]*rig.AgentH{{A, B}, {B, A}} {
			for _, cand := range pr[0].CandSeq() {
				if cand == nil {
					continue
				}
				key := pr[0].Name + cand.Marshal()
				if !signalled[key] {
					signalled[key] = true
					_ = d.Signal(pr[0], pr[1], cand)
				}
			}
		}
	}
	netStep := func() {
		synctest.Wait()
		if p := d.W.Parked(); len(p) > 0 {
			c.Step++
			c.Logf("release %s", p[0].Key)
			d.W.Release(p[0])
			synctest.Wait()
			return
		}
		d.S.StepFair(ci / 2)
	}
	startOp := func(ag, peer *rig.AgentH, controlling bool) func() {
		return func() {
			if blocking {
				spawn("dial/accept "+ag.Name, func() error {
					var conn *ice.Conn
					var err error
					if controlling {
						conn, err = ag.A.Dial(context.Background(), peer.Ufrag, peer.Pwd)
					} else {
						conn, err = ag.A.Accept(context.Background(), peer.Ufrag, peer.Pwd)
					}
					if err == nil {
						ag.Conn = conn
					}
					return err
				})
				synctest.Wait()
				return
			}
			var err error
			if controlling {
				ag.Conn, err = ag.A.StartDial(peer.Ufrag, peer.Pwd)
			} else {
				ag.Conn, err = ag.A.StartAccept(peer.Ufrag, peer.Pwd)
			}
			if err != nil {
				c.Failf("harness/start", "%v", err)
			}
			if ag == A {
				spawn("AwaitConnect A", func() error { return A.A.AwaitConnect(context.Background()) })
			}
		}
	}
	readerStarted := false
	startReader := func() {
		if readerStarted || A.Conn == nil {
			return
		}
		readerStarted = true
		conn := A.Conn
		spawn("Conn.Read A", func() error {
			buf := make([]byte, 2000)
			for {
				if _, err := conn.Read(buf); err != nil {
					return err
				}
			}
		})
	}

	var ops []func()
	ops = append(ops, func() { _ = A.A.GatherCandidates() }, func() { _ = B.A.GatherCandidates() })
	for i := 0; i < warm; i++ {
		ops = append(ops, netStep)
	}
	ops = append(ops, startOp(A, B, true), startOp(B, A, false))
	for i := 0; i < n1; i++ {
		i := i
		ops = append(ops, func() {
			signalNew()
			startReader()
			if writes && i%3 == 2 && A.Conn != nil {
				_, _ = A.Conn.Write([]byte("payload-from-A"))
			}
			netStep()
		})
	}
	if restart {
		ops = append(ops, func() {
			for _, ag := range []*rig.AgentH{A, B} {
				uf, pw := rig.Creds(ag.Name, 1)
				if err := ag.A.Restart(uf, pw); err == nil {
					ag.Ufrag, ag.Pwd = uf, pw
				}
			}
			synctest.Wait()
			_ = A.A.GatherCandidates()
			_ = B.A.GatherCandidates()
			_ = A.A.SetRemoteCredentials(B.Ufrag, B.Pwd)
			_ = B.A.SetRemoteCredentials(A.Ufrag, A.Pwd)
		})
		for i := 0; i < n2; i++ {
			ops = append(ops, func() { signalNew(); netStep() })
		}
	}

	pos := cut
	if pos > len(ops) {
		pos = len(ops)
	}
	for i := 0; i < pos && !c.Failed(); i++ {
		ops[i]()
	}
	if c.Failed() {
		return
	}
	synctest.Wait()
	c.Logf("cut at %d/%d kind=%d state=%s", pos, len(ops), kind, A.LastState())
	c.State(fmt.Sprintf("cut-in-%s gather=%v started=%v", A.LastState(), len(A.CandSeq()) > 0, A.Conn != nil))

	// the application has not been reading: the peer's selected address has sent more than the agent buffers,
	// and datagrams keep arriving while the agent is torn down
	if l, r, ok := A.SelectedPair(); ok && A.Conn != nil && c.T.Bias(1, 8, "receive-buffer-full") {
		for i := 0; i < 150; i++ {
			pl := make([]byte, 8192)
			tag := fmt.Sprintf("\x40unread-%04d:", i)
			for j := range pl {
				pl[j] = tag[j%len(tag)]
			}
			d.S.Deliver(d.W.Inject(r, l, pl, "unread"))
		}
		synctest.Wait()
		c.Fault("receive-buffer-full-at-close")
	}

	// arm socket faults on A
	aSocks := func() []*simnet.Sock {
		var out []*simnet.Sock
		for _, s := range d.W.Sockets() {
			if s.Host() == d.HA && s.Tag != "service" {
				out = append(out, s)
			}
		}
		return out
	}
	staysOpen := false
	c.Defer(func() {
		// sockets that refused to close are closed for good when the run ends
		var open []*simnet.Sock
		all := d.W.Sockets()
		d.W.Lock()
		for _, s := range all {
			if s.CloseStaysOpen {
				s.CloseStaysOpen = false
				open = append(open, s)
			}
		}
		d.W.Unlock()
		for _, s := range open {
			_ = s.Close()
		}
	})
	if closeErr {
		// the failed Close either closes the socket anyway, or leaves it open (then only the deadline the
		// agent sets can end its receive loop)
		staysOpen = c.T.Bias(1, 3, "close-stays-open")
		socks := aSocks()
		d.W.Lock()
		for _, s := range socks {
			s.CloseErr = errors.New("simulated close error")
			s.CloseStaysOpen = staysOpen
		}
		d.W.Unlock()
		c.Fault("socket-close-error")
		if staysOpen {
			c.Fault("socket-close-error-stays-open")
		}
	}
	if c.T.Bias(1, 4, "late-read-wakeup") {
		// a blocked reader learns late that its socket was closed / its deadline moved into the past
		socks := aSocks()
		d.W.Lock()
		for _, s := range socks {
			s.ReadWakeDelay = 300 * time.Millisecond
		}
		d.W.Unlock()
		c.Fault("late-read-wakeup")
	}
	if blockWrites {
		for _, s := range aSocks() {
			s.SetBlockWrites(true)
		}
		// let a check tick run into the blocked socket: the task loop is now stuck inside a write
		time.Sleep(ci + time.Millisecond)
		synctest.Wait()
		blocked := 0
		for _, s := range aSocks() {
			blocked += s.Blocked()
		}
		if blocked > 0 {
			c.Fault("close-while-loop-blocked-in-write")
		}
	}

	// the cut
	type closer struct {
		name         string
		done         atomic.Bool
		returned     time.Duration
		openAtReturn []string // sockets of the agent still open at the instant this closer returned
		// readersAtReturn: sockets of the agent inside whose read call a goroutine still sat at that instant
		readersAtReturn []string
		// busyAtReturn: application callbacks still executing when a GracefulClose returned
		busyAtReturn int
		graceful     bool
	}
	var closers []*closer
	t0 := c.Now()
	run := func(name string, f func() error) {
		cl := &closer{name: name}
		closers = append(closers, cl)
		cl.graceful = strings.Contains(name, "GracefulClose")
		go func() {
			_ = f()
			cl.returned = c.Now()
			if cl.graceful {
				cl.busyAtReturn = A.Busy()
			}
			// "when Close has returned": evaluated at the instant of return, for every caller
			for _, so := range aSocks() {
				if !so.Closed() && !(staysOpen && so.CloseCalls > 0) {
					cl.openAtReturn = append(cl.openAtReturn, so.Local.String())
				}
				if n := so.Readers(); n > 0 {
					cl.readersAtReturn = append(cl.readersAtReturn, fmt.Sprintf("%s (%d)", so.Local, n))
				}
			}
			cl.done.Store(true)
		}()
	}
	fromCallback := func(graceful bool) {
		var armed atomic.Bool
		armed.Store(true)
		cl := &closer{name: "callback"}
		closers = append(closers, cl)
		h := func() {
			if armed.CompareAndSwap(true, false) {
				if graceful {
					go func() { _ = A.A.GracefulClose(); cl.returned = c.Now(); cl.done.Store(true) }()
				} else {
					_ = A.A.Close()
					cl.returned = c.Now()
					cl.done.Store(true)
				}
			}
		}
		A.OnState = func(ice.ConnectionState) { h() }
		A.OnCand = func(ice.Candidate) { h() }
		A.OnPair = func(_, _ ice.Candidate) { h() }
		// drive the session until some callback fires (bounded); otherwise close directly
		for i := 0; i < 30 && armed.Load(); i++ {
			signalNew()
			netStep()
		}
		if armed.CompareAndSwap(true, false) {
			c.Probe("callback-close-fell-back-to-api")
			go func() { _ = A.A.Close(); cl.returned = c.Now(); cl.done.Store(true) }()
		} else {
			c.Probe("closed-from-callback")
		}
		t0 = c.Now()
	}
	switch kind {
	case 0:
		run("Close", A.A.Close)
	case 1:
		run("GracefulClose", A.A.GracefulClose)
	case 2:
		fromCallback(false)
	case 3:
		fromCallback(true)
	case 4:
		run("Close", A.A.Close)
		run("GracefulClose", A.A.GracefulClose)
	case 5:
		run("Close+Close", func() error { _ = A.A.Close(); return A.A.Close() })
	case 6:
		run("Close#1", A.A.Close)
		run("Close#2", A.A.Close)
	case 8:
		// the agent and its Conn are closed from two goroutines at once: whichever returns first, the agent is
		// torn down by then (Conn.Close is a Close of the agent)
		run("Close", A.A.Close)
		// (the second call is made once the first one has got as far as it can without simulated time passing:
		// with a late read wake-up armed it is then still waiting inside the teardown)
		synctest.Wait()
		if conn := A.Conn; conn != nil {
			run("Conn.Close", conn.Close)
		} else {
			run("Close#2", A.A.Close)
		}
	case 7:
		// a plain Close first, GracefulClose right behind it: the second call still waits for the callbacks
		run("Close+GracefulClose", func() error { _ = A.A.Close(); return A.A.GracefulClose() })
	}
	allDone := func() bool {
		for _, cl := range closers {
			if !cl.done.Load() {
				return false
			}
		}
		return true
	}
	anyDone := func() string {
		for _, cl := range closers {
			if cl.done.Load() {
				return cl.name
			}
		}
		return ""
	}
	earlyChecked := false
	for c.Now()-t0 <= time.Second {
		synctest.Wait()
		if who := anyDone(); who != "" && !earlyChecked {
			// "when Close has returned" holds for EVERY caller: at the first quiescent point after any closer
			// returned (no simulated time, no simulator help in between) the agent must be torn down, even if
			// another closer is still inside its own call
			earlyChecked = true
			for _, cl := range callers {
				if cl.name != "dial/accept B" && !cl.done.Load() {
					c.Failf("C08/close-returned-before-teardown", "%s returned but %s is still blocked (a concurrent close is still tearing the agent down; cut %d/%d, kind %d)",
						who, cl.name, pos, len(ops), kind)
					break
				}
			}
			// (a handler that is still busy with an earlier state delays the notification, not the teardown)
			if st := A.LastState(); st != ice.ConnectionStateClosed && !c.Failed() && !slowHandler {
				c.Failf("C08/close-returned-before-teardown", "%s returned but the last notified state is %s, not Closed (cut %d/%d, kind %d)", who, st, pos, len(ops), kind)
			}
			if c.Failed() {
				for _, s := range aSocks() {
					s.SetBlockWrites(false)
				}
				for p := d.W.Parked(); len(p) > 0; p = d.W.Parked() {
					d.W.Release(p[0])
					synctest.Wait()
				}
				return
			}
		}
		if allDone() {
			break
		}
		if p := d.W.Parked(); len(p) > 0 {
			d.W.Release(p[0]) // a parked listen is the simulator's doing, not a blocked socket
			continue
		}
		time.Sleep(50 * time.Millisecond)
	}
	synctest.Wait()
	if !allDone() {
		var pending []string
		for _, cl := range closers {
			if !cl.done.Load() {
				pending = append(pending, cl.name)
			}
		}
		c.Failf("C08/close-did-not-return", "%v still blocked 1 s after the call (cut %d/%d in state %s, kind %d, blockWrites=%v)", pending, pos, len(ops), A.LastState(), kind, blockWrites)
		// unblock so that the run can end
		for _, s := range aSocks() {
			s.SetBlockWrites(false)
		}
		return
	}
	for _, cl := range closers {
		if cl.graceful && cl.busyAtReturn > 0 {
			c.Failf("C08/gracefulclose-returned-while-callback-running", "%s returned while %d application callback(s) of the agent were still executing (state handler mode %d, cut %d/%d)", cl.name, cl.busyAtReturn, hmode, pos, len(ops))
			return
		}
		if len(cl.readersAtReturn) > 0 {
			c.Failf("C08/goroutine-in-read-after-close", "%s returned while a goroutine of the agent was still inside a read of %v (its receive loop was not joined; teardown at position %d of %d, kind %d)",
				cl.name, cl.readersAtReturn, pos, len(ops), kind)
			return
		}
		if len(cl.openAtReturn) > 0 {
			c.Failf("C08/close-returned-before-teardown", "%s returned while sockets of the agent were still open (%v): a concurrent close was still in progress (cut %d/%d, kind %d)",
				cl.name, cl.openAtReturn, pos, len(ops), kind)
			return
		}
	}
	// 1. everyone blocked before the cut has returned with an error
	for _, cl := range callers {
		if cl.name == "dial/accept B" {
			continue // B is not the agent being closed
		}
		if !cl.done.Load() {
			c.Failf("C08/blocked-caller-not-released", "%s still blocked after Close returned (cut %d/%d, kind %d)", cl.name, pos, len(ops), kind)
			return
		}
		if cl.err == nil && !(cl.name == "AwaitConnect A" || cl.name == "dial/accept A") {
			c.Failf("C08/blocked-caller-no-error", "%s returned nil after Close", cl.name)
			return
		}
	}
	c.Probe(fmt.Sprintf("callers-released-%d", len(callers)))
	// 2. later API calls return at once, state-dependent ones with the closed error, and emit nothing
	before := map[uint64]bool{}
	for _, q := range d.W.InFlight() {
		before[q.ID] = true
	}
	nStates := len(A.StateSeq())
	type apiRes struct {
		name string
		done atomic.Bool
		err  error
		must bool // must report the closed error
	}
	var apis []*apiRes
	call := func(name string, must bool, f func() error) {
		r := &apiRes{name: name, must: must}
		apis = append(apis, r)
		go func() { r.err = f(); r.done.Store(true) }()
	}
	call("GetLocalCandidates", true, func() error { _, err := A.A.GetLocalCandidates(); return err })
	call("GetRemoteCandidates", true, func() error { _, err := A.A.GetRemoteCandidates(); return err })
	call("GetGatheringState", true, func() error { _, err := A.A.GetGatheringState(); return err })
	call("GetLocalUserCredentials", true, func() error { _, _, err := A.A.GetLocalUserCredentials(); return err })
	call("GetRemoteUserCredentials", true, func() error { _, _, err := A.A.GetRemoteUserCredentials(); return err })
	call("GatherCandidates", true, func() error { return A.A.GatherCandidates() })
	call("Restart", true, func() error { return A.A.Restart("", "") })
	call("SetRemoteCredentials", true, func() error { return A.A.SetRemoteCredentials("uuuu", "pppppppppppppppppppppppp") })
	call("StartDial", true, func() error { _, err := A.A.StartDial("uuuu", "pppppppppppppppppppppppp"); return err })
	call("AwaitConnect", false, func() error {
		ctx, cancel := context.WithTimeout(context.Background(), time.Millisecond)
		defer cancel()
		return A.A.AwaitConnect(ctx)
	})
	call("GetSelectedCandidatePair", false, func() error { _, err := A.A.GetSelectedCandidatePair(); return err })
	call("GetCandidatePairsStats", false, func() error { _ = A.A.GetCandidatePairsStats(); return nil })
	call("AddRemoteCandidate", false, func() error {
		cand, _ := ice.NewCandidateHost(&ice.CandidateHostConfig{Network: "udp", Address: "10.0.2.99", Port: 999, Component: 1})
		return A.A.AddRemoteCandidate(cand)
	})
	if A.Conn != nil {
		conn := A.Conn
		call("Conn.Write", true, func() error { _, err := conn.Write([]byte("after-close")); return err })
		call("Conn.Read", true, func() error { _, err := conn.Read(make([]byte, 10)); return err })
		call("Conn.WriteToPair", true, func() error { _, err := conn.WriteToPair(1, []byte("after-close")); return err })
		call("Conn.GetCandidatePairsInfo", false, func() error { _ = conn.GetCandidatePairsInfo(); return nil })
	}
	call("Close again", false, func() error { return A.A.Close() })
	call("GracefulClose again", false, func() error { return A.A.GracefulClose() })
	time.Sleep(5 * time.Millisecond)
	if slowHandler {
		// GracefulClose waits for the handlers; the slow one needs 30 ms per queued state
		time.Sleep(300 * time.Millisecond)
	}
	synctest.Wait()
	for _, r := range apis {
		if !r.done.Load() {
			c.Failf("C08/api-blocks-after-close", "%s did not return after Close (cut %d/%d, kind %d)", r.name, pos, len(ops), kind)
			return
		}
		if r.must && r.err == nil {
			c.Failf("C08/api-no-error-after-close", "%s returned nil after Close", r.name)
			return
		}
	}
	// 3. silence: nothing leaves the agent any more, Closed is the last state
	time.Sleep(5 * time.Second)
	synctest.Wait()
	ids := hostSockIDs(d.W, d.HA)
	for _, q := range d.W.InFlight() {
		if !before[q.ID] && ids[q.SockID] {
			c.Failf("C08/emission-after-close", "agent emitted %s after Close returned", d.Tx.Describe(q))
			return
		}
	}
	st := A.StateSeq()
	if len(st) == 0 || st[len(st)-1].State != ice.ConnectionStateClosed {
		c.Failf("C08/last-state-not-closed", "state callbacks after Close: %v", st)
		return
	}
	for i, ev := range st {
		if ev.State == ice.ConnectionStateClosed && i != len(st)-1 {
			c.Failf("C08/state-after-closed", "a state was delivered after Closed: %v", st)
			return
		}
	}
	_ = nStates
	if reentered.Load() {
		c.Probe("close-from-closed-callback")
		if !reenterDone.Load() {
			c.Failf("C08/close-from-closed-callback-did-not-return", "the state handler called Close when it was told Closed; that call has not returned 5 s later")
			return
		}
	}
	if slowHandler && len(st) > 2 {
		c.Probe("closed-behind-queued-states")
	}
	for _, s := range aSocks() {
		if staysOpen && s.CloseCalls > 0 {
			continue // the agent did close it; the simulated socket refuses to close (fault)
		}
		if !s.Closed() {
			c.Failf("C08/socket-open-after-close", "socket %s of the closed agent is still open", s.Local)
			return
		}
	}
}
