package checks

import (
	"fmt"
	"net/netip"
	"time"

	"github.com/pion/ice/v4"
	"github.com/pion/stun/v3"

	"verif/sim/core"
	"verif/sim/rig"
	"verif/sim/simnet"
)

func init() {
	core.Register(&core.Spec{ID: "C04", Fn: runC04})
}

type c04Agent struct {
	h        *rig.AgentH
	host     *simnet.Host
	lite     bool
	D, F     time.Duration // effective disconnected / failed timeouts (0 = disabled)
	checkDL  time.Duration // initial checking deadline (0 = never)
	lastFrom map[netip.AddrPort]time.Duration
	muted    bool

	// automaton bookkeeping
	stSeen       int
	cur          ice.ConnectionState
	restartAt    []time.Duration
	restartUsed  int
	closed       bool
	closedAt     time.Duration
	checkingFrom time.Duration // when the agent (re-)entered Checking (Start / Restart), by the harness's record
	firstTick    time.Duration // first tick at or after checkingFrom (-1 = none yet)
	prevState    ice.ConnectionState
	prevSel      *netip.AddrPort
	handlerViol  string
	restartEpoch int
}

func runC04(c *core.Ctx) {
	t := c.T
	if t.Bias(1, 12, "slow-handler") {
		runC04SlowHandler(c)
		return
	}
	if t.Bias(1, 12, "late-signal") {
		runC04LateSignal(c)
		return
	}
	if t.Bias(1, 12, "handler-view") {
		runC04HandlerView(c)
		return
	}
	ka := []time.Duration{100 * time.Millisecond, time.Second}[t.Choose(2, "ka")]
	dMul := []int{2, 5, 0, -1}[t.Pick([]int{4, 3, 2, 1}, "dmul")] // -1 = leave the default
	fMul := []int{3, 10, 0}[t.Pick([]int{4, 3, 2}, "fmul")]
	ciDiv := []int{1, 5}[t.Choose(2, "cidiv")]
	keepalive := []time.Duration{ka, 0}[t.Pick([]int{5, 1}, "kazero")]
	liteB := t.Bias(1, 4, "liteB")
	neverConnect := t.Bias(1, 5, "neverconnect")
	// renomination enabled: the controlling application renominates its selected pair now and then (also while
	// the peer is silent, so that the renomination stays unanswered)
	renom := t.Bias(1, 3, "renomination")
	c.Knob("renomination", renom)
	ci := ka / time.Duration(ciDiv)
	c.Knob("ka", keepalive.String())
	c.Knob("ci", ci.String())
	c.Knob("dMul", dMul)
	c.Knob("fMul", fMul)
	c.Knob("liteB", liteB)
	c.Knob("neverConnect", neverConnect)

	mkOpts := func(lite bool) ([]ice.AgentOption, time.Duration, time.Duration, time.Duration) {
		o := []ice.AgentOption{ice.WithCheckInterval(ci), ice.WithKeepaliveInterval(keepalive),
			ice.WithCandidateTypes([]ice.CandidateType{ice.CandidateTypeHost}), ice.WithMaxBindingRequests(1000)}
		if renom {
			o = append(o, ice.WithRenomination(ice.DefaultNominationValueGenerator()))
		}
		F := time.Duration(fMul) * ka
		o = append(o, ice.WithFailedTimeout(F))
		var D, dl time.Duration
		if dMul >= 0 {
			D = time.Duration(dMul) * ka
			o = append(o, ice.WithDisconnectedTimeout(D))
			dl = D + F
		} else { // documented defaults: 5 s (full), 10 s (lite); the checking deadline uses 5 s for both
			D = 5 * time.Second
			if lite {
				D = 10 * time.Second
			}
			dl = 5*time.Second + F
		}
		if F == 0 {
			dl = 0
		}
		if lite {
			o = append(o, ice.WithICELite(true))
		}
		return o, D, F, dl
	}
	oa, da, fa, dla := mkOpts(false)
	ob, db, fb, dlb := mkOpts(liteB)
	duoCfg := rig.DuoCfg{AddrsA: []string{"10.0.1.10"}, AddrsB: []string{"10.0.2.10"}, OptsA: oa, OptsB: ob}
	if t.Bias(1, 4, "config-constructor") {
		// the same configuration handed over as an AgentConfig (the constructor applications used before the
		// options existed): explicit values are explicit there too, lite defaults apply only to what was left out
		mkCfg := func(lite bool) *ice.AgentConfig {
			mbr := uint16(1000)
			ciV, kaV := ci, keepalive
			F := time.Duration(fMul) * ka
			cfg := &ice.AgentConfig{CheckInterval: &ciV, KeepaliveInterval: &kaV, FailedTimeout: &F,
				CandidateTypes: []ice.CandidateType{ice.CandidateTypeHost}, MaxBindingRequests: &mbr, Lite: lite}
			if dMul >= 0 {
				D := time.Duration(dMul) * ka
				cfg.DisconnectedTimeout = &D
			}
			return cfg
		}
		duoCfg.ConfigA, duoCfg.ConfigB = mkCfg(false), mkCfg(liteB)
		c.Knob("constructor", "AgentConfig")
	}
	d, err := rig.NewDuo(c, duoCfg)
	if err != nil {
		c.Failf("harness/setup", "%v", err)
		return
	}
	notes := rig.InstallNotes(c)
	A := &c04Agent{h: d.A, host: d.HA, D: da, F: fa, checkDL: dla, lastFrom: map[netip.AddrPort]time.Duration{}, firstTick: -1}
	B := &c04Agent{h: d.B, host: d.HB, lite: liteB, D: db, F: fb, checkDL: dlb, lastFrom: map[netip.AddrPort]time.Duration{}, firstTick: -1}
	ags := []*c04Agent{A, B}
	byAgent := map[*ice.Agent]*c04Agent{d.A.A: A, d.B.A: B}

	// (4) handlers look at the agent from inside the callback
	for _, x := range ags {
		x := x
		x.h.OnState = func(s ice.ConnectionState) {
			epoch := x.restartEpoch
			p, _ := x.h.A.GetSelectedCandidatePair()
			switch s {
			case ice.ConnectionStateConnected, ice.ConnectionStateDisconnected:
				if p == nil && epoch == x.restartEpoch && !x.closed {
					x.handlerViol = fmt.Sprintf("handler for %s saw no selected pair", s)
				}
			case ice.ConnectionStateFailed:
				lc, err := x.h.A.GetLocalCandidates()
				if epoch == x.restartEpoch && !x.closed {
					if p != nil {
						x.handlerViol = "handler for Failed still saw a selected pair"
					} else if err == nil && len(lc) != 0 {
						x.handlerViol = fmt.Sprintf("handler for Failed still saw %d local candidates", len(lc))
					}
				}
			}
		}
	}

	d.S.AfterDeliver = func(dg *simnet.Datagram, res simnet.DeliverResult, to *simnet.Sock) {
		if res != simnet.Delivered || to == nil {
			return
		}
		if dg.Note == "c04-rejected-stun" {
			return // STUN the agent has to discard (wrong integrity) is not "hearing from" the remote
		}
		for _, x := range ags {
			if to.Host() == x.host {
				x.lastFrom[dg.Src] = c.Now()
			}
		}
	}
	// muted agents receive nothing: their inbound datagrams are dropped as soon as they are in flight
	dropMuted := func() {
		for _, dg := range d.W.InFlight() {
			for _, x := range ags {
				if x.muted && x.host.Owns(dg.Dst.Addr()) {
					d.W.Drop(dg)
					c.Fault("silence-drop")
				}
			}
		}
	}

	for _, ag := range []*rig.AgentH{d.A, d.B} {
		if err := d.Gather(ag); err != nil {
			c.Failf("harness/gather", "%v", err)
			return
		}
	}
	notes.Take()
	if neverConnect {
		A.muted, B.muted = true, true
	}
	for _, cand := range d.A.LocalCands() {
		_ = d.Signal(d.A, d.B, cand)
	}
	for _, cand := range d.B.LocalCands() {
		_ = d.Signal(d.B, d.A, cand)
	}
	d.S.Settle()
	if c.T.Bias(1, 4, "late-start") {
		// the application takes its time between creating (and gathering for) the agent and starting it:
		// every deadline of the Checking state runs from the moment Checking is entered, not from construction
		d.S.Advance([]time.Duration{300 * time.Millisecond, 2 * time.Second, 20 * time.Second}[c.T.Choose(3, "startdelay")])
		c.Fault("late-start")
	}
	d.A.Conn, err = d.A.A.StartDial(d.B.Ufrag, d.B.Pwd)
	if err != nil {
		c.Failf("harness/start", "%v", err)
		return
	}
	A.checkingFrom = c.Now()
	d.S.Settle()
	d.B.Conn, err = d.B.A.StartAccept(d.A.Ufrag, d.A.Pwd)
	if err != nil {
		c.Failf("harness/start", "%v", err)
		return
	}
	B.checkingFrom = c.Now()
	d.S.Settle()
	for _, x := range ags {
		x.prevState = ice.ConnectionStateNew
		x.cur = ice.ConnectionStateNew
	}

	g := ci // stepping granularity: no more than one timer tick per agent and step
	for _, v := range []time.Duration{keepalive, da, fa, db, fb} {
		if v != 0 && v < g {
			g = v
		}
	}
	menu := []time.Duration{g, time.Nanosecond, g / 2, g - time.Nanosecond}
	// the agent's timer never sleeps longer than the smallest non-zero of {disconnected, failed timeout, 2 s}
	// (public configuration / documented keepalive default); the deadline is evaluated at those ticks
	tickBound := 2 * time.Second
	for _, v := range []time.Duration{da, fa, db, fb} {
		if v != 0 && v < tickBound {
			tickBound = v
		}
	}

	afterStep := func(pureAdvance bool) {
		ticks := map[*c04Agent][]time.Duration{}
		for _, ev := range notes.Take() {
			if ev.Site != "tick" {
				continue
			}
			if a, ok := ev.V.(*ice.Agent); ok && byAgent[a] != nil {
				ticks[byAgent[a]] = append(ticks[byAgent[a]], ev.At)
			}
		}
		for _, x := range ags {
			c04Automaton(c, x)
			if x.handlerViol != "" {
				c.Failf("C04/handler-view", "%s: %s", x.h.Name, x.handlerViol)
			}
			now := x.h.LastState()
			var selNow *netip.AddrPort
			if _, r, ok := x.h.SelectedPair(); ok {
				selNow = &r
			}
			sel := selNow
			if sel == nil {
				sel = x.prevSel
			}
			for _, tk := range ticks[x] {
				if x.firstTick < 0 && tk >= x.checkingFrom {
					x.firstTick = tk
				}
			}
			if !x.closed && len(ticks[x]) == 1 {
				tk := ticks[x][0]
				switch {
				case sel != nil && (x.prevState == ice.ConnectionStateConnected || x.prevState == ice.ConnectionStateDisconnected || selNow != nil):
					lf, ok := x.lastFrom[*sel]
					if !ok {
						break
					}
					silence := tk - lf
					want := c04Expected(x, silence, x.prevState)
					alt := want
					if !pureAdvance {
						alt = c04Expected(x, silence, ice.ConnectionStateConnected)
					}
					c.State(fmt.Sprintf("tick %s prev=%s want=%s D=%v F=%v", map[bool]string{true: "lite", false: "full"}[x.lite], x.prevState, want, x.D != 0, x.F != 0))
					if silence == x.D && x.D != 0 {
						c.Probe("silence-exactly-D")
					}
					if silence == x.D+x.F && x.F != 0 {
						c.Probe("silence-exactly-D+F")
					}
					if now != want && now != alt {
						c.Failf("C04/state-vs-silence", "%s after tick at %v: state %s, expected %s (silence of selected remote %v = %v, disconnected timeout %v, failed timeout %v, state before %s)",
							x.h.Name, tk, now, want, *sel, silence, x.D, x.F, x.prevState)
					}
					if want != x.prevState {
						c.Probe("tick-transition-" + want.String())
					}
				case sel == nil && x.prevState == ice.ConnectionStateChecking && selNow == nil:
					sinceEnter := tk - x.checkingFrom
					if now == ice.ConnectionStateFailed {
						c.Probe("checking-deadline-failed")
						if x.checkDL == 0 {
							c.Failf("C04/failed-with-failed-timeout-disabled", "%s failed while checking although the failed timeout is 0", x.h.Name)
						} else if sinceEnter <= x.checkDL {
							c.Failf("C04/checking-deadline-early", "%s failed %v after entering Checking; the checking deadline is %v", x.h.Name, sinceEnter, x.checkDL)
						}
					} else if now == ice.ConnectionStateChecking && x.checkDL != 0 && x.firstTick >= 0 && tk-x.firstTick > x.checkDL {
						c.Failf("C04/checking-deadline-late", "%s still Checking at a tick %v after its first tick in Checking; the checking deadline is %v", x.h.Name, tk-x.firstTick, x.checkDL)
					}
				}
			} else if len(ticks[x]) > 1 {
				c.Probe("multi-tick-step")
			}
			// independent of ticks: an agent that sits in Checking without a selection must have failed once the
			// checking deadline plus two check intervals have passed (the deadline is evaluated at check ticks)
			if !x.closed && now == ice.ConnectionStateChecking && selNow == nil && x.checkDL != 0 &&
				c.Now()-x.checkingFrom > x.checkDL+2*tickBound+ci {
				c.Failf("C04/checking-deadline-never-fires", "%s still Checking %v after entering Checking (deadline %v, check interval %v)",
					x.h.Name, c.Now()-x.checkingFrom, x.checkDL, tickBound)
			}
			x.prevState = now
			x.prevSel = selNow
		}
	}

	seqRej := uint32(0)
	steps := c.T.Range(60, 400, "steps")
	for i := 0; i < steps && !c.Failed(); i++ {
		// application data is traffic too: it keeps the selected remote "heard" exactly like STUN does
		if c.T.Bias(1, 12, "appdata") {
			for _, x := range ags {
				if x.h.Conn != nil && !x.closed {
					if n, err := x.h.Conn.Write([]byte("\x40app-data")); err == nil && n > 0 {
						c.Probe("app-data-sent")
					}
				}
			}
			d.S.Settle()
		}
		dropMuted()
		if c.T.Bias(1, 10, "rejected-stun") {
			// STUN that the agent must discard keeps arriving from the selected remote (a peer that has moved on
			// to other credentials, or somebody spoofing its address): it does not end, or postpone, the silence
			for _, x := range ags {
				if !x.muted || x.closed || x.h.Conn == nil {
					continue
				}
				if l, r, ok := x.h.SelectedPair(); ok {
					seqRej++
					other := d.A
					if x.h == d.A {
						other = d.B
					}
					pl := rig.MsgSpec{Class: stun.ClassRequest, Method: stun.MethodBinding, Seq: 900000 + seqRej,
						Username: rig.Str(x.h.Ufrag + ":" + other.Ufrag), Priority: rig.U32(2130706431), Controlled: rig.U64(5),
						Key: "not-the-password-not-the-password", Integrity: rig.IntRight}.Build()
					d.S.Deliver(d.W.Inject(r, l, pl, "c04-rejected-stun"))
					c.Fault("rejected-stun-during-silence")
				}
			}
			// whatever the agent answered to it is dropped with the rest
			dropMuted()
		}
		pool := d.S.Eligible()
		act := c.T.Pick([]int{6, 5, 1, 1}, "act")
		if len(pool) > 0 && act == 0 {
			d.S.Deliver(pool[0])
			afterStep(false)
			continue
		}
		switch act {
		case 2: // toggle silence towards one agent
			x := ags[c.T.Choose(2, "who")]
			if !neverConnect {
				x.muted = !x.muted
				c.Logf("mute %s=%v", x.h.Name, x.muted)
				c.Fault("silence-toggle")
			}
		case 3:
			switch c.T.Pick([]int{6, 2, 1, map[bool]int{true: 4, false: 0}[renom]}, "life") {
			case 3: // the controlling application renominates the selected pair
				if !A.closed {
					snap := rig.TakeSnap(d.A)
					for _, p := range snap.Pairs {
						if snap.Selected != "" && p.Key() == snap.Selected {
							if lc, rc := c20Find(d.A, p.Local, p.Remote); lc != nil && rc != nil {
								if err := d.A.A.RenominateCandidate(lc, rc); err == nil {
									c.Fault("renominate-selected-pair")
								}
								d.S.Settle()
							}
						}
					}
				}
			case 1: // Restart both sides, re-signal
				if A.closed || B.closed {
					break
				}
				for _, dg := range d.W.InFlight() {
					d.W.Drop(dg)
				}
				for _, x := range ags {
					uf, pw := rig.Creds(x.h.Name, len(x.restartAt)+1)
					x.restartEpoch++
					if err := x.h.A.Restart(uf, pw); err != nil {
						c.Failf("harness/restart", "%v", err)
						return
					}
					x.h.Ufrag, x.h.Pwd = uf, pw
					x.restartAt = append(x.restartAt, c.Now())
					x.checkingFrom, x.firstTick = c.Now(), -1
					x.lastFrom = map[netip.AddrPort]time.Duration{}
					x.prevSel = nil
				}
				d.S.Settle()
				c.Fault("restart")
				if c.T.Bias(1, 3, "restart-bare") {
					// a restart after which nothing else happens (signalling lost, peer gone): the agents sit in
					// Checking with no candidates and must still run into their checking deadline
					c.Fault("restart-without-regather")
				} else {
					for _, ag := range []*rig.AgentH{d.A, d.B} {
						if err := d.Gather(ag); err != nil {
							c.Failf("harness/gather", "%v", err)
							return
						}
					}
					_ = d.A.A.SetRemoteCredentials(d.B.Ufrag, d.B.Pwd)
					_ = d.B.A.SetRemoteCredentials(d.A.Ufrag, d.A.Pwd)
					for _, cand := range d.A.LocalCands() {
						_ = d.Signal(d.A, d.B, cand)
					}
					for _, cand := range d.B.LocalCands() {
						_ = d.Signal(d.B, d.A, cand)
					}
					d.S.Settle()
				}
				notes.Take()
				for _, x := range ags {
					c04Automaton(c, x)
					x.prevState = x.h.LastState()
				}
				continue
			case 2: // Close one side
				x := ags[c.T.Choose(2, "whoclose")]
				if !x.closed {
					x.closed = true
					x.closedAt = c.Now()
					_ = x.h.A.Close()
					d.S.Settle()
					c.Fault("close")
				}
			}
			fallthrough
		default:
			d.S.Advance(menu[c.T.Choose(len(menu), "delta")])
			afterStep(true)
		}
	}
}

// c04Expected: what the statement says the state is after a tick, given the silence of the selected remote.
func c04Expected(x *c04Agent, silence time.Duration, before ice.ConnectionState) ice.ConnectionState {
	disc := x.D != 0 && silence > x.D
	failed := x.F != 0 && silence > x.D+x.F
	switch {
	case failed:
		if disc && before != ice.ConnectionStateDisconnected && before != ice.ConnectionStateFailed {
			return ice.ConnectionStateDisconnected // Disconnected is reported before Failed
		}
		return ice.ConnectionStateFailed
	case disc:
		return ice.ConnectionStateDisconnected
	default:
		return ice.ConnectionStateConnected
	}
}

// c04Automaton checks the callback stream against the lifecycle automaton of the statement.
func c04Automaton(c *core.Ctx, x *c04Agent) {
	evs := x.h.StateSeq()
	for ; x.stSeen < len(evs); x.stSeen++ {
		ev := evs[x.stSeen]
		from, to := x.cur, ev.State
		restarted := false
		for x.restartUsed < len(x.restartAt) && x.restartAt[x.restartUsed] <= ev.At {
			x.restartUsed++
			restarted = true
		}
		ok := false
		switch {
		case from == ice.ConnectionStateClosed:
			ok = false
		case to == from:
			ok = false
		case to == ice.ConnectionStateClosed:
			ok = x.closed
		case from == ice.ConnectionStateNew && to == ice.ConnectionStateChecking:
			ok = true
		case from == ice.ConnectionStateChecking && (to == ice.ConnectionStateConnected || to == ice.ConnectionStateFailed):
			ok = true
		case from == ice.ConnectionStateConnected && to == ice.ConnectionStateDisconnected:
			ok = true
		case from == ice.ConnectionStateDisconnected && (to == ice.ConnectionStateConnected || to == ice.ConnectionStateFailed):
			ok = true
		case from == ice.ConnectionStateConnected && to == ice.ConnectionStateFailed:
			ok = x.D == 0
		case to == ice.ConnectionStateChecking && (from == ice.ConnectionStateConnected || from == ice.ConnectionStateDisconnected || from == ice.ConnectionStateFailed):
			ok = restarted
		}
		c.State(fmt.Sprintf("trans %s->%s", from, to))
		if !ok {
			c.Failf("C04/illegal-transition", "%s reported %s -> %s at %v (restart in between: %v, closed: %v, disconnected timeout %v); stream %v",
				x.h.Name, from, to, ev.At, restarted, x.closed, x.D, evs)
		}
		x.cur = to
	}
}
