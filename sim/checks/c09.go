package checks

import (
	"fmt"
	"net/netip"
	"testing/synctest"
	"time"

	"github.com/pion/ice/v4"

	"verif/sim/core"
	"verif/sim/rig"
	"verif/sim/tape"
)

func init() {
	core.Register(&core.Spec{ID: "C09", Fn: runC09})
}

// runC09 (fault enumeration): one run = one sampled base sequence (gather configuration + the tape-chosen
// order/outcome of every listen, STUN exchange and TURN allocation) and, for that sequence, EVERY cut
// position k at which {Restart, Close, enter-Failed} is injected. After the cut the simulator keeps
// serving the superseded gatherers (late replies, late listens) until they have wound down; then the
// socket ledger must show no open socket attributable to the ended generation, every TURN client closed
// and every mux handle released.
func runC09(c *core.Ctx) {
	cfg := drawGCfg(c.T)
	faults := c.T.Bias(2, 3, "gfaults")
	c.Knob("cfg", cfg.String())
	c.Knob("faults", faults)

	// base run (no cut): draws the base choices from the run's tape
	i0 := c.T.Len()
	n, ok := c09Sub(c, c.T, cfg, faults, -1, "", true)
	if !ok || c.Failed() {
		return
	}
	base := c.T.Recorded()[i0:]
	c.Knob("baseSteps", n)
	c.SetSample(fmt.Sprintf("%s steps=%d", cfg, n))
	cuts := 0
	for k := 0; k <= n && !c.Failed(); k++ {
		for _, kind := range []string{"restart", "close", "restart+close", "restart+gather+close", "failed"} {
			if kind == "failed" && k%3 != 0 {
				continue // the Failed cut costs a long simulated wait; every third position
			}
			c09Sub(c, tape.Replay(base), cfg, faults, k, kind, false)
			cuts++
			if c.Failed() {
				return
			}
		}
	}
	c.Knob("cuts", cuts)
	c.AddEvals(cuts)
	c.MarkNontrivial()
}

// c09Sub runs the base sequence with an optional cut at step `cut`; returns the number of base steps.
func c09Sub(c *core.Ctx, t *tape.Tape, cfg gCfg, faults bool, cut int, kind string, trace bool) (int, bool) {
	var extra []ice.AgentOption
	if kind == "failed" {
		extra = append(extra, ice.WithDisconnectedTimeout(200*time.Millisecond), ice.WithFailedTimeout(300*time.Millisecond),
			ice.WithCheckInterval(100*time.Millisecond))
	}
	g, err := newGRig(c, t, cfg, extra...)
	if err != nil {
		c.Failf("harness/setup", "%v", err)
		return 0, false
	}
	g.trace = trace
	where := fmt.Sprintf("cfg{%s} cut=%d/%s", cfg, cut, kind)
	if kind == "failed" {
		// a started agent with no peer: it fails on its checking deadline while gathering goes on
		var err error
		g.api(func() { _, err = g.ag.A.StartDial("peerufrag", "peerpwdxxxxxxxxxxxxxxxxxxxxxxxx") })
		if err != nil {
			c.Failf("harness/start", "%v", err)
			return 0, false
		}
		if g.sch != nil {
			// the started agent's own timers submit to the loop all the time: the Failed cut runs unscheduled
			g.sch.SetPass(true)
		}
	}
	var gerr error
	g.api(func() { gerr = g.ag.A.GatherCandidates() })
	if gerr != nil {
		c.Failf("harness/gather", "%v", gerr)
		return 0, false
	}
	steps := 0
	restart := func() error {
		var err error
		g.api(func() { err = g.ag.A.Restart("", "") })
		return err
	}
	doCut := func() {
		switch kind {
		case "restart":
			if err := restart(); err != nil {
				c.Failf("harness/restart", "%v", err)
			}
			c.Probe("cut-restart")
		case "restart+gather+close":
			// a new cycle is started right after the Restart, then Close follows at once: Close waits for the
			// new cycle only, the superseded one may still be waiting for a STUN reply
			if err := restart(); err != nil {
				c.Failf("harness/restart", "%v", err)
			}
			g.api(func() { _ = g.ag.A.GatherCandidates() })
			if !g.closeAgent() {
				c.Failf("C09/close-did-not-return", "%s: Close did not return", where)
			}
			c.Probe("cut-restart-gather-close")
		case "restart+close":
			// Restart supersedes the gathering, Close follows at once (no time for it to wind down)
			if err := restart(); err != nil {
				c.Failf("harness/restart", "%v", err)
			}
			if !g.closeAgent() {
				c.Failf("C09/close-did-not-return", "%s: Close did not return", where)
			}
			c.Probe("cut-restart-close")
		case "close":
			if !g.closeAgent() {
				c.Failf("C09/close-did-not-return", "%s: Close did not return although the simulator kept serving parked callers", where)
			}
			c.Probe("cut-close")
		case "failed":
			// the candidates listed now are removed by the transition to Failed: their sockets are closed with
			// them (candidates that the gatherers add after the failure are another matter)
			before := map[netip.AddrPort]string{}
			g.api(func() {
				for _, lc := range g.ag.LocalCands() {
					before[rig.CandAP(lc)] = lc.Type().String() + " " + rig.CandAddr(lc)
					if ra := lc.RelatedAddress(); ra != nil {
						if ip, err := netip.ParseAddr(ra.Address); err == nil {
							before[netip.AddrPortFrom(ip, uint16(ra.Port))] = lc.Type().String() + " " + rig.CandAddr(lc) + " (base)"
						}
					}
				}
			})
			time.Sleep(700 * time.Millisecond)
			synctest.Wait()
			if g.ag.LastState() == ice.ConnectionStateFailed {
				c.Probe("cut-failed")
				still := map[netip.AddrPort]bool{}
				g.api(func() {
					for _, lc := range g.ag.LocalCands() {
						still[rig.CandAP(lc)] = true
					}
				})
				for _, so := range g.agentSockets(true) {
					if what, ok := before[so.Local]; ok && !still[so.Local] {
						c.Failf("C09/socket-open-after-failed", "%s: the agent entered Failed; the socket %s of its candidate %s, which that transition removed, is still open", where, so.Local, what)
						return
					}
				}
				if len(before) > 0 {
					c.Probe("candidates-removed-by-failed")
				}
			}
		}
	}
	cutDone := cut < 0
	for i := 0; i < 400; i++ {
		if !cutDone && steps == cut {
			synctest.Wait()
			doCut()
			cutDone = true
			break
		}
		if !g.step(faults) {
			// nothing pending: let gather timeouts expire once, then stop if still nothing
			time.Sleep(cfg.stunTimeout + 50*time.Millisecond)
			synctest.Wait()
			if g.pending() == 0 {
				break
			}
		}
		steps++
	}
	if !cutDone {
		// the cut position lies beyond the end of this base sequence: cut at the end
		synctest.Wait()
		doCut()
	}
	if c.Failed() {
		return steps, false
	}
	if (kind == "restart+close" || kind == "close") && g.leftAtClose > 0 {
		// Close waits for the gathering it cancels - also for a cycle that Restart cancelled before: when it
		// returns none of the agent's goroutines may still sit in a listen, an allocation or a loop submission
		// (it would still own a socket). (Not demanded after restart+gather+close: there Close waits for the
		// new cycle only.)
		c.Failf("C09/gatherer-still-running-after-close", "%s: Close returned while %d call(s) of the agent's gathering goroutines were still pending in the simulator (listen / allocate / loop submission)", where, g.leftAtClose)
		return steps, false
	}
	if kind == "restart+close" || kind == "close" || kind == "restart+gather+close" {
		// "after Close has returned": no simulated time may pass, only quiescence is awaited
		synctest.Wait()
		if open := g.agentSockets(true); len(open) > 0 {
			c.Failf("C09/socket-open-after-close", "%s: %d socket(s) still open after Close returned: %v", where, len(open), describeSocks(open))
			return steps, false
		}
	}
	// serve the superseded gatherers until they have wound down
	g.drain(faults)

	if kind == "failed" && g.ag.LastState() == ice.ConnectionStateFailed && t.Bias(1, 2, "restart-from-failed") {
		// the gatherers went on after the failure and may have added candidates since: the Restart that follows
		// ends that generation like any other
		listed := map[netip.AddrPort]string{}
		g.api(func() {
			for _, lc := range g.ag.LocalCands() {
				listed[rig.CandAP(lc)] = lc.Type().String() + " " + rig.CandAddr(lc)
			}
		})
		if err := restart(); err != nil {
			c.Failf("harness/restart", "%v", err)
			return steps, false
		}
		c.Probe("restart-from-failed")
		synctest.Wait()
		// at once (no simulated time passes: a second failure would clean up behind the Restart)
		for _, so := range g.agentSockets(true) {
			if what, ok := listed[so.Local]; ok {
				c.Failf("C09/socket-open-after-restart", "%s: Restart of the failed agent returned; the socket %s of candidate %s, gathered after the failure and removed by the Restart, is still open", where, so.Local, what)
				return steps, false
			}
		}
		if len(listed) > 0 {
			c.Probe("candidates-gathered-while-failed-removed-by-restart")
		}
		g.drain(faults)
		kind = "restart"
		where += " then Restart from Failed"
	}
	if kind == "restart" {
		if open := g.W.OpenTCPConns(); len(open) > 0 {
			c.Failf("C09/tcp-connection-open-after-restart", "%s: %d outgoing TCP connection(s) of the ended generation still open", where, len(open))
			return steps, false
		}
		if open := g.agentSockets(true); len(open) > 0 {
			c.Failf("C09/socket-open-after-restart", "%s: %d socket(s) of the ended generation still open after the superseded gathering wound down: %v",
				where, len(open), describeSocks(open))
			return steps, false
		}
	}
	if !g.closed {
		if !g.closeAgent() {
			c.Failf("C09/close-did-not-return", "%s: final Close did not return", where)
			return steps, false
		}
	}
	// "after Close has returned": no simulated time may pass, only quiescence is awaited
	synctest.Wait()
	if open := g.agentSockets(true); len(open) > 0 {
		c.Failf("C09/socket-open-after-close", "%s: %d socket(s) still open after Close returned: %v", where, len(open), describeSocks(open))
		return steps, false
	}
	g.drain(false)
	if open := g.agentSockets(true); len(open) > 0 {
		c.Failf("C09/socket-reopened-after-close", "%s: %d socket(s) open after the closed agent's gatherers wound down: %v", where, len(open), describeSocks(open))
		return steps, false
	}
	if open := g.W.OpenTCPConns(); len(open) > 0 {
		c.Failf("C09/tcp-connection-open-after-close", "%s: %d outgoing TCP connection(s) (TURN over TCP) still open after Close: %v -> %v", where, len(open), open[0].LocalAddr(), open[0].RemoteAddr())
		return steps, false
	}
	if len(g.W.TCPConns) > 0 {
		c.Probe("turn-over-tcp-connection")
	}
	if g.turn.Undeallocated > 0 {
		c.Failf("C09/relay-allocation-not-released", "%s: %d relay allocation(s) were not released: the relayed connection was closed only after the TURN client's control connection (the Refresh with lifetime 0 can no longer be sent; the allocation lives on the server until it expires)", where, g.turn.Undeallocated)
		return steps, false
	}
	for i, cl := range g.turn.Snapshot() {
		if cl.CloseCalls == 0 {
			c.Failf("C09/turn-client-not-closed", "%s: TURN client #%d (listened=%v, %d allocations) was never closed", where, i, cl.Listened, len(cl.Allocated))
			return steps, false
		}
		if len(cl.Allocated) > 0 {
			c.Probe("relay-allocated")
		}
	}
	if g.mux != nil {
		if un := g.mux.Unreleased(); len(un) > 0 {
			c.Failf("C09/mux-handle-not-released", "%s: mux handles neither closed nor removed: %v", where, un)
			return steps, false
		}
	}
	if g.muxSrflxC != nil {
		if un := g.muxSrflxC.Unreleased(); len(un) > 0 {
			c.Failf("C09/srflx-mux-handle-not-released", "%s: handles of the server-reflexive mux never closed: %v", where, un)
			return steps, false
		}
		if len(g.muxSrflxC.Handles) > 1 {
			c.Probe("srflx-mux-handles>1")
		}
	}
	if g.tcpMux != nil {
		if un := g.tcpMux.Unreleased(); len(un) > 0 {
			c.Failf("C09/tcp-mux-handle-not-released", "%s: TCP mux handles neither closed nor removed: %v", where, un)
			return steps, false
		}
		if len(g.tcpMux.Handles) > 0 {
			c.Probe("tcp-mux-handle")
		}
	}
	g.finish()
	if trace {
		all := g.agentSockets(false)
		c.Knob("socketsOpened", len(all))
		for _, s := range all {
			if s.CloseCalls > 1 {
				c.Probe("redundant-socket-close")
			}
		}
	}
	return steps, true
}
