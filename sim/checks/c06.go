package checks

import (
	"errors"
	"fmt"
	"net"
	"net/netip"
	"strings"
	"time"

	"github.com/pion/ice/v4"
	"github.com/pion/stun/v3"

	"verif/sim/core"
	"verif/sim/rig"
	"verif/sim/simnet"
)

func init() {
	core.Register(&core.Spec{ID: "C06", Fn: runC06})
}

const c06FilteredIP = "192.0.2.66" // rejected by the remote IP filter of both agents

// runC06: random histories of local/remote trickle (with duplicates), prflx discovery, prflx->signalled
// supersession, TCP-active/passive remotes, filtered addresses, Restart and failure; global
// bookkeeping invariants are evaluated on the public getters at every quiescent point.
func runC06(c *core.Ctx) {
	if c.T.Bias(1, 8, "late-signal-scenario") {
		runC06LateSignal(c)
		return
	}
	k := drawC01Knobs(c)
	k.liteB = false
	k.trickle = c.T.Bias(3, 4, "trickle2")
	c.Knob("trickle", k.trickle)
	filter := func(ip net.IP) bool { return ip.String() != c06FilteredIP }
	opts := func() []ice.AgentOption {
		return []ice.AgentOption{
			ice.WithCheckInterval(k.checkInterval), ice.WithKeepaliveInterval(k.keepalive),
			ice.WithDisconnectedTimeout(k.disc), ice.WithFailedTimeout(k.failed),
			ice.WithMaxBindingRequests(uint16(k.maxReq)),
			ice.WithSrflxAcceptanceMinWait(0), ice.WithPrflxAcceptanceMinWait(0),
			ice.WithCandidateTypes([]ice.CandidateType{ice.CandidateTypeHost, ice.CandidateTypeServerReflexive}),
			ice.WithRemoteIPFilter(filter), ice.WithDisableActiveTCP(),
		}
	}
	cfg := rig.DuoCfg{AddrsA: c01Addrs("10.0.1", k.nA), AddrsB: c01Addrs("10.0.2", k.nB), OptsA: opts(), OptsB: opts()}
	if k.aliasA {
		cfg.AliasA = "198.51.100.1"
	}
	if k.aliasB {
		cfg.AliasB = "198.51.100.2"
	}
	d, err := rig.NewDuo(c, cfg)
	if err != nil {
		c.Failf("harness/setup", "%v", err)
		return
	}
	d.S.DropW, d.S.DupW, d.S.ReorderW, d.S.AdvanceW = k.dropW, k.dupW, k.reorderW, k.advW
	for _, ag := range []*rig.AgentH{d.A, d.B} {
		if err := d.Gather(ag); err != nil {
			c.Failf("harness/gather", "%v", err)
			return
		}
	}
	if c.T.Bias(1, 4, "mapped-v4-sources") {
		// the sockets report IPv4 sources in IPv4-in-IPv6 form: a peer-reflexive candidate learned that way is
		// still the same transport address as the signalled a.b.c.d:port
		d.HA.MappedV4Sources, d.HB.MappedV4Sources = true, true
		c.Fault("ipv4-mapped-sources")
	}
	o := &c06Oracle{c: c, d: d, idKey: map[string]map[uint64]string{"A": {}, "B": {}}}
	if c.T.Bias(1, 4, "restart-before-start") {
		// candidates gathered and trickled before Dial/Accept, then Restart while the state is still New:
		// nothing of that generation may survive
		for _, cand := range d.A.LocalCands() {
			_ = d.Signal(d.A, d.B, cand)
		}
		for _, cand := range d.B.LocalCands() {
			_ = d.Signal(d.B, d.A, cand)
		}
		o.invariants()
		for _, ag := range []*rig.AgentH{d.A, d.B} {
			uf, pw := rig.Creds(ag.Name, 9)
			if err := ag.A.Restart(uf, pw); err != nil {
				c.Failf("harness/restart", "%v", err)
				return
			}
			ag.Ufrag, ag.Pwd = uf, pw
			d.S.Settle()
			s := rig.TakeSnap(ag)
			if len(s.Pairs) != 0 || len(s.Locals) != 0 || len(s.Remotes) != 0 || s.Selected != "" {
				c.Failf("C06/restart-residue", "%s after Restart in state New: %d pairs, %d local, %d remote candidates, selected=%q", ag.Name, len(s.Pairs), len(s.Locals), len(s.Remotes), s.Selected)
				return
			}
			c.Probe("restart-before-start-clean")
		}
		for _, ag := range []*rig.AgentH{d.A, d.B} {
			if err := d.Gather(ag); err != nil {
				c.Failf("harness/gather", "%v", err)
				return
			}
		}
	}
	// socket fault for the teardowns below: closing a candidate's socket reports an error (the socket is
	// closed anyway) - the rest of the generation must still be torn down
	armCloseErr := func() {
		if !c.T.Bias(1, 3, "socket-close-error") {
			return
		}
		var socks []*simnet.Sock
		for _, so := range d.W.Sockets() {
			if (so.Host() == d.HA || so.Host() == d.HB) && so.Tag != "service" && !so.Closed() {
				socks = append(socks, so)
			}
		}
		d.W.Lock()
		for _, so := range socks {
			so.CloseErr = errors.New("simulated close error")
		}
		d.W.Unlock()
		c.Fault("socket-close-error")
	}
	d.AroundSignal = o.aroundSignal
	sess := &c01Session{c: c, d: d, k: k, noOracles: true}
	sess.hook = func(string) {
		if c.Failed() {
			return
		}
		o.invariants()
		if c.Failed() {
			return
		}
		switch c.T.Pick([]int{20, 2, 2, 2, 1}, "c06op") {
		case 1:
			o.prflxProbe()
		case 2:
			o.dupSignal()
		case 3:
			o.tcpSignal()
		case 4:
			o.writeToPairProbe()
		}
		o.invariants()
	}
	sess.generation(0)
	if c.Failed() {
		return
	}
	if !k.restart && k.disc > 0 && k.failed > 0 && c.T.Bias(1, 3, "silence-to-failed") {
		// the peer falls silent (total loss both ways) until both agents have gone through Disconnected to
		// Failed: the Failed state must leave nothing behind (invariants: pairs, candidates, selection,
		// transactions)
		c.Fault("total-silence")
		armCloseErr()
		total := k.disc + k.failed + 2*k.checkInterval + 2*k.keepalive + time.Second
		for el := time.Duration(0); el < total && !c.Failed(); el += k.checkInterval {
			for _, dg := range d.W.InFlight() {
				d.W.Drop(dg)
			}
			d.S.Advance(k.checkInterval)
			o.invariants()
		}
		for _, ag := range []*rig.AgentH{d.A, d.B} {
			if ag.LastState() != ice.ConnectionStateFailed {
				continue
			}
			c.Probe("failed-after-connected")
			o.staleIDs(ag, map[*rig.AgentH]*simnet.Host{d.A: d.HA, d.B: d.HB}[ag], "failed")
			if c.Failed() {
				return
			}
			// a late trickled candidate reaches the failed agent; the Restart that follows ends that generation
			late, err := ice.NewCandidateHost(&ice.CandidateHostConfig{Network: "udp", Address: "10.0.9.99", Port: 9999, Component: 1})
			if err != nil {
				continue
			}
			_ = ag.A.AddRemoteCandidate(late)
			d.S.Settle()
			uf, pw := rig.Creds(ag.Name, 7)
			if err := ag.A.Restart(uf, pw); err != nil {
				c.Failf("harness/restart", "%v", err)
				return
			}
			ag.Ufrag, ag.Pwd = uf, pw
			d.S.Settle()
			s := rig.TakeSnap(ag)
			if len(s.Pairs) != 0 || len(s.Locals) != 0 || len(s.Remotes) != 0 || s.Selected != "" {
				c.Failf("C06/restart-residue", "%s after Restart from Failed (a remote candidate had arrived while Failed): %d pairs, %d local, %d remote candidates, selected=%q", ag.Name, len(s.Pairs), len(s.Locals), len(s.Remotes), s.Selected)
				return
			}
			c.Probe("restart-from-failed-clean")
		}
		return
	}
	if k.restart {
		// Restart must leave no residue: checked right after each Restart call
		armCloseErr()
		for _, ag := range []*rig.AgentH{d.A, d.B} {
			uf, pw := rig.Creds(ag.Name, 1)
			if err := ag.A.Restart(uf, pw); err != nil {
				c.Failf("harness/restart", "%v", err)
				return
			}
			ag.Ufrag, ag.Pwd = uf, pw
			d.S.Settle()
			o.idKey[ag.Name] = map[uint64]string{}
			o.staleIDs(ag, map[*rig.AgentH]*simnet.Host{d.A: d.HA, d.B: d.HB}[ag], "restart")
			if c.Failed() {
				return
			}
			s := rig.TakeSnap(ag)
			if len(s.Pairs) != 0 || len(s.Locals) != 0 || len(s.Remotes) != 0 || s.Selected != "" {
				c.Failf("C06/restart-residue", "%s after Restart: %d pairs, %d local, %d remote candidates, selected=%q", ag.Name, len(s.Pairs), len(s.Locals), len(s.Remotes), s.Selected)
				return
			}
			if n, err := ice.VerifPendingTransactions(ag.A); err == nil && n != 0 {
				c.Failf("C06/restart-residue/transactions", "%s after Restart still holds %d outstanding Binding transaction(s) of the previous generation", ag.Name, n)
				return
			}
			c.Probe("restart-clean")
		}
		for _, ag := range []*rig.AgentH{d.A, d.B} {
			if err := d.Gather(ag); err != nil {
				c.Failf("harness/gather", "%v", err)
				return
			}
		}
		sess.generation(1)
	}
}

type c06Oracle struct {
	probed    map[string][]uint64 // pair ids WriteToPair was used with, per agent, in the current generation
	c         *core.Ctx
	d         *rig.Duo
	idKey     map[string]map[uint64]string // per agent: pair id -> transport-address pair (this generation)
	seq       uint32
	sawFailed map[string]bool
}

func (o *c06Oracle) invariants() {
	c, d := o.c, o.d
	for _, ag := range []*rig.AgentH{d.A, d.B} {
		s := rig.TakeSnap(ag)
		c.State(ag.Name + " " + s.Abstract())
		if s.DupPairIDs {
			c.Failf("C06/duplicate-pair-id", "%s lists two pairs with the same id: %v", ag.Name, s.Pairs)
		}
		seen := map[string]bool{}
		for _, p := range s.Pairs {
			if seen[p.Key()] {
				c.Failf("C06/duplicate-pair", "%s lists pair %s twice: %v", ag.Name, p.Key(), s.Pairs)
			}
			seen[p.Key()] = true
			if strings.HasPrefix(p.Local, "?") || strings.HasPrefix(p.Remote, "?") {
				c.Failf("C06/pair-of-unknown-candidate", "%s lists pair %s whose candidate is not among the current candidates", ag.Name, p.Key())
			}
			if p.Local[:3] != p.Remote[:3] {
				c.Failf("C06/pair-network-mismatch", "%s lists pair %s across network types", ag.Name, p.Key())
			}
			if p.ID != 0 {
				if prev, ok := o.idKey[ag.Name][p.ID]; ok && prev != p.Key() {
					c.Failf("C06/pair-id-reassigned", "%s: pair id %d addressed %s, now %s", ag.Name, p.ID, prev, p.Key())
				}
				o.idKey[ag.Name][p.ID] = p.Key()
			}
		}
		if s.Selected != "" && !seen[s.Selected] {
			c.Failf("C06/selected-not-listed", "%s selected %s which is not among its listed pairs %v", ag.Name, s.Selected, s.Pairs)
		}
		if st, ok := ag.A.GetSelectedCandidatePairStats(); ok && s.LastState != ice.ConnectionStateClosed {
			// the selected pair is formed from CURRENT candidates: the very candidates the agent lists (by their
			// ids), not objects that were superseded or removed meanwhile
			okL, okR := false, false
			for _, ls := range ag.A.GetLocalCandidatesStats() {
				okL = okL || ls.ID == st.LocalCandidateID
			}
			for _, rs := range ag.A.GetRemoteCandidatesStats() {
				okR = okR || rs.ID == st.RemoteCandidateID
			}
			if !okL || !okR {
				c.Failf("C06/selected-pair-of-superseded-candidate", "%s: the selected pair (%s) uses a candidate that is not (any more) among the agent's current candidates (local listed: %v, remote listed: %v)",
					ag.Name, s.Selected, okL, okR)
			}
		}
		rseen := map[string]bool{}
		for _, r := range s.Remotes {
			key := r.Addr + "/" + r.Type.String()
			if rseen[key] {
				c.Failf("C06/duplicate-remote", "%s holds remote candidate %s twice", ag.Name, key)
			}
			rseen[key] = true
			if strings.Contains(r.Addr, c06FilteredIP+":") {
				c.Failf("C06/filtered-remote-present", "%s holds remote candidate %s (%s) although the remote IP filter rejects it", ag.Name, r.Addr, r.Type)
			}
		}
		rcs, _ := ag.A.GetRemoteCandidates()
		for _, rc := range rcs {
			if rc.TCPType() == ice.TCPTypeActive {
				c.Failf("C06/tcp-active-remote-present", "%s holds a TCP-active remote candidate %s", ag.Name, rig.CandAddr(rc))
			}
		}
		if s.LastState == ice.ConnectionStateFailed {
			if len(s.Pairs) != 0 || len(s.Locals) != 0 || s.Selected != "" {
				c.Failf("C06/failed-residue", "%s in Failed still has %d pairs, %d local candidates, selected=%q", ag.Name, len(s.Pairs), len(s.Locals), s.Selected)
			}
			if n, err := ice.VerifPendingTransactions(ag.A); err == nil && n != 0 {
				c.Failf("C06/failed-residue/transactions", "%s in Failed still holds %d outstanding Binding transaction(s)", ag.Name, n)
			}
			c.Probe("failed-clean")
		}
	}
}

// aroundSignal: a signalled candidate that supersedes a peer-reflexive one with the same transport
// address must keep id, state, nomination, statistics and selection of the affected pairs.
func (o *c06Oracle) aroundSignal(_, to *rig.AgentH, cand ice.Candidate, do func()) {
	c := o.c
	pre := rig.TakeSnap(to)
	do()
	post := rig.TakeSnap(to)
	addr := rig.CandAddr(cand)
	wasPrflx, dup := false, false
	for _, r := range pre.Remotes {
		if r.Addr == addr && r.Type == ice.CandidateTypePeerReflexive {
			wasPrflx = true
		}
		if r.Addr == addr && r.Type == cand.Type() {
			dup = true
		}
	}
	if dup {
		c.Probe("duplicate-signal")
		if len(pre.Remotes) != len(post.Remotes) || len(pre.Pairs) != len(post.Pairs) || pre.Selected != post.Selected {
			c.Failf("C06/duplicate-signal-changed-state", "re-signalling %s to %s changed the candidate/pair sets: remotes %d->%d pairs %d->%d selected %q->%q",
				addr, to.Name, len(pre.Remotes), len(post.Remotes), len(pre.Pairs), len(post.Pairs), pre.Selected, post.Selected)
		}
		return
	}
	if !wasPrflx {
		return
	}
	c.Probe("prflx-superseded")
	postPairs := map[string]rig.PairSnap{}
	for _, p := range post.Pairs {
		postPairs[p.Key()] = p
	}
	for _, p := range pre.Pairs {
		if p.Remote != addr {
			continue
		}
		q, ok := postPairs[p.Key()]
		if !ok {
			c.Failf("C06/supersession-lost-pair", "%s: pair %s vanished when %s superseded the peer-reflexive candidate", to.Name, p.Key(), addr)
			return
		}
		// the new candidate triggers a check round: requests sent may grow and a Waiting pair may start
		p2 := p
		p2.RemoteType = q.RemoteType
		if q.ReqSent >= p.ReqSent {
			p2.ReqSent = q.ReqSent
		}
		if p.State == ice.CandidatePairStateWaiting && q.State == ice.CandidatePairStateInProgress {
			p2.State = q.State
		}
		// ... and the controlling side may use that round to nominate its best valid pair
		if to == o.d.A && !p.Nominated && q.Nominated && q.ReqSent > p.ReqSent && p.State == ice.CandidatePairStateSucceeded {
			p2.Nominated = true
		}
		if p2 != q {
			c.Failf("C06/supersession-changed-pair", "%s: pair changed on supersession: %v -> %v", to.Name, p, q)
			return
		}
		if p.State == ice.CandidatePairStateSucceeded {
			c.Probe("superseded-succeeded-pair")
		}
	}
	if pre.Selected != post.Selected {
		c.Failf("C06/supersession-changed-selection", "%s: selection %q -> %q on supersession", to.Name, pre.Selected, post.Selected)
	}
	if pre.Selected != "" && strings.HasSuffix(pre.Selected, "<->"+addr) {
		c.Probe("superseded-selected-pair")
	}
	for _, r := range post.Remotes {
		if r.Addr == addr && r.Type == ice.CandidateTypePeerReflexive {
			c.Failf("C06/prflx-not-replaced", "%s still holds the peer-reflexive candidate %s next to the signalled one", to.Name, addr)
		}
	}
}

// prflxProbe: an authentic check from an unknown (or filtered) source address.
func (o *c06Oracle) prflxProbe() {
	c, d := o.c, o.d
	target, peer := d.A, d.B
	if c.T.Choose(2, "target") == 1 {
		target, peer = d.B, d.A
	}
	if target.Conn == nil {
		return
	}
	locals := target.LocalCands()
	if len(locals) == 0 {
		return
	}
	dst := rig.CandAP(locals[c.T.Choose(len(locals), "dst")])
	ip := []string{"192.0.2.50", c06FilteredIP}[c.T.Choose(2, "srcip")]
	src := netip.AddrPortFrom(netip.MustParseAddr(ip), uint16(42000+c.T.Choose(2, "port")))
	if c.T.Bias(1, 4, "src-of-tcp-candidate") {
		// the UDP check comes from the very IP:port under which the peer's ICE-TCP candidate was signalled
		// (tcpSignal): another transport, hence another candidate
		src = netip.MustParseAddrPort("10.0.9.9:4000")
		c.Probe("udp-check-from-address-of-tcp-candidate")
	}
	o.seq++
	tb := uint64(99)
	spec := rig.MsgSpec{Method: stun.MethodBinding, Class: stun.ClassRequest, Seq: 1000 + o.seq,
		Username: rig.Str(target.Ufrag + ":" + peer.Ufrag), Key: target.Pwd, Priority: rig.U32(110<<24 + 65535<<8 + 255)}
	if target == d.A {
		spec.Controlled = &tb
	} else {
		spec.Controlling = &tb
	}
	dg := d.W.Inject(src, dst, spec.Build(), "prflx-probe")
	c.Fault("prflx-probe")
	c.Logf("prflx probe %s -> %s", src, dst)
	if res, _ := d.S.Deliver(dg); res == simnet.Delivered && ip == c06FilteredIP {
		c.Probe("filtered-prflx-attempt")
	}
}

// dupSignal re-signals a candidate the peer already knows.
func (o *c06Oracle) dupSignal() {
	c, d := o.c, o.d
	from, to := d.A, d.B
	if c.T.Choose(2, "dir") == 1 {
		from, to = d.B, d.A
	}
	known := to.RemoteCands()
	locals := from.LocalCands()
	if len(locals) == 0 || len(known) == 0 {
		return
	}
	cand := locals[c.T.Choose(len(locals), "which")]
	for _, r := range known {
		if rig.CandAddr(r) == rig.CandAddr(cand) && r.Type() == cand.Type() {
			c.Fault("duplicate-signal")
			_ = d.Signal(from, to, cand)
			d.S.Settle()
			return
		}
	}
}

// tcpSignal hands TCP-active / TCP-passive / filtered host candidates to an agent.
func (o *c06Oracle) tcpSignal() {
	c, d := o.c, o.d
	to := []*rig.AgentH{d.A, d.B}[c.T.Choose(2, "to")]
	kind := c.T.Choose(3, "kind")
	var cfg ice.CandidateHostConfig
	switch kind {
	case 0:
		cfg = ice.CandidateHostConfig{Network: "tcp", Address: "10.0.9.9", Port: 9, Component: 1, TCPType: ice.TCPTypeActive}
	case 1:
		cfg = ice.CandidateHostConfig{Network: "tcp", Address: "10.0.9.9", Port: 4000 + c.T.Choose(2, "p"), Component: 1, TCPType: ice.TCPTypePassive}
	case 2:
		cfg = ice.CandidateHostConfig{Network: "udp", Address: c06FilteredIP, Port: 4000 + c.T.Choose(2, "p"), Component: 1}
	}
	cand, err := ice.NewCandidateHost(&cfg)
	if err != nil {
		c.Failf("harness/candidate", "%v", err)
		return
	}
	c.Fault(fmt.Sprintf("odd-remote-candidate:%d", kind))
	c.Logf("signal odd candidate kind=%d to %s", kind, to.Name)
	_ = to.A.AddRemoteCandidate(cand)
	d.S.Settle()
}

// writeToPairProbe: a pair id keeps addressing the same transport-address pair (checked on the wire).
func (o *c06Oracle) writeToPairProbe() {
	c, d := o.c, o.d
	ag, h := d.A, d.HA
	if c.T.Choose(2, "who") == 1 {
		ag, h = d.B, d.HB
	}
	if ag.Conn == nil {
		return
	}
	s := rig.TakeSnap(ag)
	var ok []rig.PairSnap
	for _, p := range s.Pairs {
		if p.State == ice.CandidatePairStateSucceeded && p.ID != 0 {
			ok = append(ok, p)
		}
	}
	if len(ok) == 0 {
		return
	}
	p := ok[c.T.Choose(len(ok), "pair")]
	before := map[uint64]bool{}
	for _, q := range d.W.InFlight() {
		before[q.ID] = true
	}
	payload := []byte(fmt.Sprintf("probe-%d-%d", p.ID, c.Step))
	n, err := ag.Conn.WriteToPair(p.ID, payload)
	d.S.Settle()
	if err != nil || n != len(payload) {
		c.Failf("C06/write-to-pair-failed", "%s WriteToPair(%d) on succeeded pair %s: n=%d err=%v", ag.Name, p.ID, p.Key(), n, err)
		return
	}
	ids := hostSockIDs(d.W, h)
	found := false
	for _, q := range d.W.InFlight() {
		if before[q.ID] || !ids[q.SockID] || string(q.Payload) != string(payload) {
			continue
		}
		found = true
		got := "udp/" + q.Src.String() + "<->udp/" + q.Dst.String()
		if got != p.Key() {
			c.Failf("C06/pair-id-wrong-address", "%s WriteToPair(%d): listed as %s, datagram went %s", ag.Name, p.ID, p.Key(), got)
		}
		d.W.Drop(q)
	}
	if !found && !c.Failed() {
		c.Failf("C06/write-to-pair-no-datagram", "%s WriteToPair(%d) reported success but nothing left the agent", ag.Name, p.ID)
	}
	c.Probe("write-to-pair")
	if o.probed == nil {
		o.probed = map[string][]uint64{}
	}
	o.probed[ag.Name] = append(o.probed[ag.Name], p.ID)
	// the pair's own send counters follow the write (the id addresses the listed pair, not a stale copy of it)
	for _, q := range rig.TakeSnap(ag).Pairs {
		if q.ID == p.ID && q.PktsSent != p.PktsSent+1 {
			c.Failf("C06/pair-id-addresses-stale-pair", "%s WriteToPair(%d) sent a datagram on %s but the listed pair's PacketsSent went %d -> %d", ag.Name, p.ID, p.Key(), p.PktsSent, q.PktsSent)
		}
	}
}

// staleIDs: pair ids written to in a generation that has ended (Restart, Failed) address nothing any more.
func (o *c06Oracle) staleIDs(ag *rig.AgentH, h *simnet.Host, why string) {
	c, d := o.c, o.d
	if ag.Conn == nil {
		return
	}
	for _, id := range o.probed[ag.Name] {
		before := map[uint64]bool{}
		for _, q := range d.W.InFlight() {
			before[q.ID] = true
		}
		payload := []byte(fmt.Sprintf("stale-%d", id))
		n, err := ag.Conn.WriteToPair(id, payload)
		d.S.Settle()
		emitted := false
		ids := hostSockIDs(d.W, h)
		for _, q := range d.W.InFlight() {
			if !before[q.ID] && ids[q.SockID] && string(q.Payload) == string(payload) {
				emitted = true
				d.W.Drop(q)
			}
		}
		if err == nil || emitted {
			c.Failf("C06/pair-id-survives-"+why, "%s WriteToPair(%d) after %s: n=%d err=%v datagram emitted=%v (the pair of the ended generation must be gone)", ag.Name, id, why, n, err, emitted)
			return
		}
		c.Probe("stale-pair-id-refused")
	}
	if o.probed != nil {
		o.probed[ag.Name] = nil
	}
}
