package checks

import (
	"fmt"
	"net"
	"net/netip"
	"sync"
	"testing/synctest"

	"github.com/pion/ice/v4"
	"github.com/pion/stun/v3"

	"verif/sim/core"
	"verif/sim/rig"
	"verif/sim/simnet"
)

// runC12MultiTwo: MultiUDPMuxDefault over TWO muxes of the same address family (two sockets of one host). A
// ufrag may hold a connection on each of them. The routing statement holds per mux, and removal is by ufrag:
// after RemoveConnByUfrag every connection of that ufrag - on whichever mux - receives nothing any more, neither
// from the addresses it wrote to nor by its ufrag, while the other ufrag's connections go on as before.
func runC12MultiTwo(c *core.Ctx) {
	t := c.T
	c.Knob("part", "multi-two-muxes")
	c.MarkNontrivial()
	w := simnet.NewWorld()
	host := w.SimpleHost("muxhost", "10.0.0.1", "10.0.0.2")
	logger := rig.Quiet().NewLogger("c12m")
	locals := []netip.AddrPort{netip.MustParseAddrPort("10.0.0.1:5000"), netip.MustParseAddrPort("10.0.0.2:5000")}
	var inner []ice.UDPMux
	for _, l := range locals {
		pc, err := host.Net().ListenUDP("udp4", net.UDPAddrFromAddrPort(l))
		if err != nil {
			c.Failf("harness/listen", "%v", err)
			return
		}
		inner = append(inner, ice.NewUDPMuxDefault(ice.UDPMuxParams{Logger: logger, UDPConn: pc, Net: host.Net()}))
	}
	multi := ice.NewMultiUDPMuxDefault(inner...)
	type handle struct {
		u, m int
		conn net.PacketConn
		mu   sync.Mutex
		got  []string
		err  error
	}
	var hs []*handle
	c.Defer(func() {
		for _, h := range hs {
			_ = h.conn.Close()
		}
		_ = multi.Close()
		synctest.Wait()
	})
	ufrags := []string{"ufa", "ufb"}
	// every (ufrag, mux) combination in a tape-chosen order; a few are left out
	order := [][2]int{{0, 0}, {0, 1}, {1, 0}, {1, 1}}
	for i := len(order) - 1; i > 0; i-- {
		j := t.Choose(i+1, "shuffle")
		order[i], order[j] = order[j], order[i]
	}
	for _, um := range order {
		if t.Bias(1, 5, "skip") {
			continue
		}
		conn, err := multi.GetConn(ufrags[um[0]], net.UDPAddrFromAddrPort(locals[um[1]]))
		if err != nil {
			c.Failf("C12/multi-getconn", "GetConn(%s, %s) on the multi mux: %v", ufrags[um[0]], locals[um[1]], err)
			return
		}
		h := &handle{u: um[0], m: um[1], conn: conn}
		hs = append(hs, h)
		go func() {
			buf := make([]byte, 2048)
			for {
				n, _, err := conn.ReadFrom(buf)
				h.mu.Lock()
				if err != nil {
					h.err = err
					h.mu.Unlock()
					return
				}
				h.got = append(h.got, string(buf[:n]))
				h.mu.Unlock()
			}
		}()
	}
	if len(hs) == 0 {
		return
	}
	synctest.Wait()
	// every handle writes to a peer address of its own: the address is bound to it
	peer := func(h *handle) netip.AddrPort {
		return netip.AddrPortFrom(netip.MustParseAddr("192.0.2.1"), uint16(1000+10*h.u+h.m))
	}
	for _, h := range hs {
		if _, err := h.conn.WriteTo([]byte("out"), net.UDPAddrFromAddrPort(peer(h))); err != nil {
			c.Failf("C12/multi-write", "WriteTo through the multi mux failed: %v", err)
			return
		}
	}
	synctest.Wait()
	for _, d := range w.InFlight() {
		w.Drop(d)
	}
	seq := uint32(0)
	round := func(tag string, removed int) bool {
		want := map[*handle][]string{}
		for _, h := range hs {
			// (a) from the address it wrote to, (b) STUN naming its ufrag from an unseen source
			seq++
			data := fmt.Sprintf("data-%s-%d", tag, seq)
			w.Deliver(w.Inject(peer(h), locals[h.m], []byte(data), "c12m"))
			name := ufrags[h.u] + ":x"
			req := rig.MsgSpec{Class: stun.ClassRequest, Method: stun.MethodBinding, Seq: 7000 + seq, Username: &name,
				Integrity: rig.IntAbsent, Fingerprint: rig.FpAbsent}.Build()
			src := netip.AddrPortFrom(netip.MustParseAddr("192.0.2.9"), uint16(2000+seq))
			w.Deliver(w.Inject(src, locals[h.m], req, "c12m"))
			if h.u != removed {
				want[h] = append(want[h], data, string(req))
			}
		}
		synctest.Wait()
		for _, h := range hs {
			h.mu.Lock()
			got := append([]string(nil), h.got...)
			h.got = nil
			h.mu.Unlock()
			if h.u == removed {
				if len(got) > 0 {
					c.Failf("C12/removed-connection-received", "%s: the connection of %s on the mux at %s received %d datagram(s) (first %q) after RemoveConnByUfrag(%s) on the multi mux",
						tag, ufrags[h.u], locals[h.m], len(got), trunc([]byte(got[0])), ufrags[removed])
					return false
				}
				continue
			}
			if len(got) != len(want[h]) {
				c.Failf("C12/expected-delivery-missing", "%s: the connection of %s on the mux at %s received %d of the %d datagrams routed to it", tag, ufrags[h.u], locals[h.m], len(got), len(want[h]))
				return false
			}
			for i := range got {
				if got[i] != want[h][i] {
					c.Failf("C12/payload-not-identical", "%s: the connection of %s on the mux at %s received %q, sent %q", tag, ufrags[h.u], locals[h.m], trunc([]byte(got[i])), trunc([]byte(want[h][i])))
					return false
				}
			}
		}
		return true
	}
	if !round("before", -1) {
		return
	}
	rem := t.Choose(2, "remove")
	multi.RemoveConnByUfrag(ufrags[rem])
	synctest.Wait()
	c.Probe("multi-remove-by-ufrag")
	round("after-remove", rem)
}

var _ = core.Register
