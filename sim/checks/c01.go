package checks

import (
	"fmt"
	"net/netip"
	"syscall"
	"time"

	"github.com/pion/ice/v4"
	"github.com/pion/stun/v3"

	"verif/sim/core"
	"verif/sim/rig"
	"verif/sim/simnet"
)

func init() {
	core.Register(&core.Spec{ID: "C01", Fn: runC01})
}

// pendingSignal is one candidate not yet handed to the other side.
type pendingSignal struct {
	from, to *rig.AgentH
	c        ice.Candidate
}

type c01Knobs struct {
	nA, nB                      int
	aliasA, aliasB              bool
	liteB                       bool
	checkInterval               time.Duration
	keepalive                   time.Duration
	disc, failed                time.Duration
	maxReq                      int
	blockPct                    int
	dropW, dupW, reorderW, advW int
	trickle                     bool
	restart                     bool
	natA, natB                  int // 0 none, else simnet.NATKind+1 (at most one side)
	relayA, relayB              bool
	latency                     time.Duration // >0: no fault phase, a loss-free network with this one-way delay
}

func drawC01Knobs(c *core.Ctx) c01Knobs {
	t := c.T
	k := c01Knobs{}
	k.nA = t.Range(1, 3, "nA")
	k.nB = t.Range(1, 3, "nB")
	k.aliasA = t.Bias(1, 2, "aliasA")
	k.aliasB = t.Bias(1, 2, "aliasB")
	k.liteB = t.Bias(1, 6, "liteB")
	k.checkInterval = []time.Duration{200 * time.Millisecond, 50 * time.Millisecond, 20 * time.Millisecond}[t.Choose(3, "ci")]
	k.keepalive = []time.Duration{2 * time.Second, 500 * time.Millisecond}[t.Choose(2, "ka")]
	k.disc = []time.Duration{5 * time.Second, 3 * time.Second}[t.Choose(2, "disc")]
	k.failed = []time.Duration{25 * time.Second, 6 * time.Second}[t.Choose(2, "failed")]
	k.maxReq = []int{7, 12, 20}[t.Choose(3, "maxreq")]
	k.blockPct = []int{0, 20, 40, 100}[t.Pick([]int{3, 4, 3, 1}, "blockpct")]
	k.dropW = []int{0, 10, 20}[t.Choose(3, "dropw")]
	k.dupW = []int{0, 5, 10}[t.Choose(3, "dupw")]
	k.reorderW = []int{0, 15, 30}[t.Choose(3, "reorderw")]
	k.advW = []int{10, 20}[t.Choose(2, "advw")]
	k.trickle = t.Bias(1, 2, "trickle")
	k.restart = t.Bias(1, 4, "restart")
	if t.Bias(1, 6, "latency") {
		// slow but perfectly reliable network: round trips longer than the check interval, so that answers
		// arrive after the next repetitions of their request have been sent (the budget of the smallest
		// maxReq covers it: about 2*latency/interval + 1 requests per pair before the first answer)
		k.latency = k.checkInterval * time.Duration(3+t.Choose(3, "latmul")) / 2
		k.dropW, k.dupW, k.reorderW = 0, 0, 0
	}
	k.relayA = t.Bias(1, 5, "relayA")
	k.relayB = !k.liteB && t.Bias(1, 5, "relayB")
	if t.Bias(1, 4, "nat") {
		kind := 1 + t.Choose(4, "natkind")
		if t.Bias(1, 2, "natside") && !k.liteB {
			k.natB = kind
		} else {
			k.natA = kind
		}
	}
	if k.liteB {
		k.aliasB = false
	}
	// one srflx source per side: the mapped (alias) gatherer and the STUN gatherer issue identical listens,
	// which the simulator could not order canonically
	if k.natA != 0 || k.relayA {
		k.aliasA = false
	}
	if k.natB != 0 || k.relayB {
		k.aliasB = false
	}
	c.Knob("relay", fmt.Sprintf("%v/%v", k.relayA, k.relayB))
	c.Knob("natA", k.natA)
	c.Knob("natB", k.natB)
	c.Knob("nA", k.nA)
	c.Knob("nB", k.nB)
	c.Knob("aliasA", k.aliasA)
	c.Knob("aliasB", k.aliasB)
	c.Knob("liteB", k.liteB)
	c.Knob("ci", k.checkInterval.String())
	c.Knob("maxReq", k.maxReq)
	c.Knob("latency", k.latency.String())
	c.Knob("blockPct", k.blockPct)
	c.Knob("faultW", fmt.Sprintf("drop%d/dup%d/reorder%d", k.dropW, k.dupW, k.reorderW))
	c.Knob("trickle", k.trickle)
	c.Knob("restart", k.restart)
	return k
}

func c01Addrs(prefix string, n int) []string {
	var out []string
	for i := 0; i < n; i++ {
		out = append(out, fmt.Sprintf("%s.%d", prefix, 10+i))
	}
	return out
}

func runC01(c *core.Ctx) {
	k := drawC01Knobs(c)
	commonOpts := func() []ice.AgentOption {
		return []ice.AgentOption{
			ice.WithCheckInterval(k.checkInterval),
			ice.WithKeepaliveInterval(k.keepalive),
			ice.WithDisconnectedTimeout(k.disc),
			ice.WithFailedTimeout(k.failed),
			ice.WithMaxBindingRequests(uint16(k.maxReq)),
			ice.WithSrflxAcceptanceMinWait([]time.Duration{0, 300 * time.Millisecond}[c.T.Choose(2, "srflxwait")]),
			ice.WithPrflxAcceptanceMinWait([]time.Duration{0, 400 * time.Millisecond}[c.T.Choose(2, "prflxwait")]),
		}
	}
	cfg := rig.DuoCfg{AddrsA: c01Addrs("10.0.1", k.nA), AddrsB: c01Addrs("10.0.2", k.nB)}
	typesFor := func(relay bool) []ice.CandidateType {
		ts := []ice.CandidateType{ice.CandidateTypeHost, ice.CandidateTypeServerReflexive}
		if relay {
			ts = append(ts, ice.CandidateTypeRelay)
		}
		return ts
	}
	cfg.RelayA, cfg.RelayB = k.relayA, k.relayB
	cfg.OptsA = append(commonOpts(), ice.WithCandidateTypes(typesFor(k.relayA)))
	if k.aliasA {
		cfg.AliasA = "198.51.100.1"
	}
	if k.liteB {
		cfg.OptsB = append(commonOpts(), ice.WithICELite(true), ice.WithCandidateTypes([]ice.CandidateType{ice.CandidateTypeHost}))
	} else {
		cfg.OptsB = append(commonOpts(), ice.WithCandidateTypes(typesFor(k.relayB)))
		if k.aliasB {
			cfg.AliasB = "198.51.100.2"
		}
	}
	cfg.NATA, cfg.NATB = k.natA, k.natB
	if k.restart && !k.aliasA && !k.aliasB && !k.relayA && !k.relayB && k.natA == 0 && k.natB == 0 && c.T.Bias(1, 2, "fixed-port") {
		// a one-port range: after a Restart the re-gathered candidates sit on the very transport addresses of
		// the previous session (as with a UDP mux, or a fixed media port)
		cfg.OptsA = append(cfg.OptsA, ice.WithPortRange(6000, 6000))
		cfg.OptsB = append(cfg.OptsB, ice.WithPortRange(6000, 6000))
		c.Fault("same-transport-addresses-after-restart")
	}
	d, err := rig.NewDuo(c, cfg)
	if err != nil {
		c.Failf("harness/setup", "%v", err)
		return
	}
	d.S.DropW, d.S.DupW, d.S.ReorderW, d.S.AdvanceW = k.dropW, k.dupW, k.reorderW, k.advW

	if err := d.Gather(d.A); err != nil {
		c.Failf("harness/gather", "%v", err)
		return
	}
	if err := d.Gather(d.B); err != nil {
		c.Failf("harness/gather", "%v", err)
		return
	}

	sess := &c01Session{c: c, d: d, k: k}
	sess.generation(0)
	if c.Failed() {
		return
	}
	if k.restart {
		sess.restart()
	}
}

type c01Session struct {
	c   *core.Ctx
	d   *rig.Duo
	k   c01Knobs
	gen int
	// noOracles turns the C01 oracles off (other checks reuse the session driver).
	noOracles bool
	// hook runs after every step of the fault phase and the fair suffix.
	hook     func(phase string)
	anyBidir bool
	// prefix of violation classes (property id of the check that reuses the session driver)
	prefix string
	// sameRole starts both agents in the same role ("controlling"/"controlled"); "" = opposite roles.
	sameRole string
}

func (s *c01Session) pfx() string {
	if s.prefix == "" {
		return "C01"
	}
	return s.prefix
}

// candidate addresses currently gathered on each side
func candIPs(a *rig.AgentH) []netip.Addr {
	var out []netip.Addr
	seen := map[netip.Addr]bool{}
	for _, cand := range a.LocalCands() {
		ip := rig.CandAP(cand).Addr()
		if a.Host.NAT != nil && cand.Type() != ice.CandidateTypeRelay {
			// what the other side observes for a host/srflx candidate of a NATed host is the NAT's public
			// address (a relay candidate lives on the relay host)
			ip = a.Host.NAT.Public
		}
		if !seen[ip] {
			seen[ip] = true
			out = append(out, ip)
		}
	}
	return out
}

func (s *c01Session) drawMatrix() (anyBidir bool) {
	d, c := s.d, s.c
	ipsA, ipsB := candIPs(d.A), candIPs(d.B)
	for k := range d.Blocked {
		delete(d.Blocked, k)
	}
	for _, a := range ipsA {
		for _, b := range ipsB {
			if c.T.Bias(s.k.blockPct, 100, "blockAB") {
				d.Blocked[[2]netip.Addr{a, b}] = true
			}
			if c.T.Bias(s.k.blockPct, 100, "blockBA") {
				d.Blocked[[2]netip.Addr{b, a}] = true
			}
		}
	}
	oneWay := 0
	for _, a := range ipsA {
		for _, b := range ipsB {
			if d.Bidirectional(a, b) {
				anyBidir = true
			} else if d.Reachable(a, b) != d.Reachable(b, a) {
				oneWay++
			}
		}
	}
	if oneWay > 0 {
		c.Probe("one-way-link")
	}
	c.Logf("matrix blocked=%d bidir=%v", len(d.Blocked), anyBidir)
	return anyBidir
}

// checkSafety: oracle (a)/(d) evaluated at every quiescent point.
func (s *c01Session) checkSafety(anyBidir bool) {
	d, c := s.d, s.c
	if s.noOracles {
		return
	}
	for _, ag := range []*rig.AgentH{d.A, d.B} {
		l, r, ok := ag.SelectedPair()
		st := ag.LastState()
		if !anyBidir {
			if ok {
				c.Failf(s.pfx()+"/selected-without-bidirectional-pair", "%s selected %v->%v although no pair is reachable both ways", ag.Name, l, r)
			}
			if st == ice.ConnectionStateConnected {
				c.Failf(s.pfx()+"/connected-without-bidirectional-pair", "%s reported Connected although no pair is reachable both ways", ag.Name)
			}
			continue
		}
		if ok && !d.Bidirectional(s.obs(ag, l.Addr()), s.obsPeer(ag, r.Addr())) {
			c.Failf(s.pfx()+"/selected-unreachable-pair", "%s selected %v->%v which is not reachable in both directions", ag.Name, l, r)
		}
	}
}

func (s *c01Session) stateKey() string {
	d := s.d
	_, _, sa := d.A.SelectedPair()
	_, _, sb := d.B.SelectedPair()
	return fmt.Sprintf("g%d A=%s/%v B=%s/%v", s.gen, d.A.LastState(), sa, d.B.LastState(), sb)
}

// generation runs one ICE generation: matrix, signalling, fault phase, fair suffix, final oracles.
func (s *c01Session) generation(gen int) {
	d, c, k := s.d, s.c, s.k
	s.gen = gen
	genStateIdx := map[*rig.AgentH]int{d.A: len(d.A.StateSeq()), d.B: len(d.B.StateSeq())}
	d.W.Lock()
	wireSeen := len(d.Wire)
	d.W.Unlock()
	anyBidir := s.drawMatrix()
	s.anyBidir = anyBidir

	// Signalling: Start*/SetRemoteCredentials and candidates are pending actions; either all at once
	// (tape-chosen order) or trickled during the fault phase. The retry-budget clock starts now, so
	// every lag between the two sides lies inside the fault budget.
	type action struct {
		name string
		do   func()
	}
	var pend []action
	start := func(controlling bool) func() {
		return func() {
			var err error
			if controlling {
				c.Logf("start A gen=%d", gen)
				if gen == 0 && s.sameRole == "controlled" {
					d.A.Conn, err = d.A.A.StartAccept(d.B.Ufrag, d.B.Pwd)
				} else if gen == 0 {
					d.A.Conn, err = d.A.A.StartDial(d.B.Ufrag, d.B.Pwd)
				} else {
					err = d.A.A.SetRemoteCredentials(d.B.Ufrag, d.B.Pwd)
				}
			} else {
				c.Logf("start B gen=%d", gen)
				if gen == 0 && s.sameRole == "controlling" {
					d.B.Conn, err = d.B.A.StartDial(d.A.Ufrag, d.A.Pwd)
				} else if gen == 0 {
					d.B.Conn, err = d.B.A.StartAccept(d.A.Ufrag, d.A.Pwd)
				} else {
					err = d.B.A.SetRemoteCredentials(d.A.Ufrag, d.A.Pwd)
				}
			}
			if err != nil {
				c.Failf("harness/start", "%v", err)
			}
		}
	}
	pend = append(pend, action{"startA", start(true)}, action{"startB", start(false)})
	if gen == 0 {
		// Datagrams addressed to an agent that has not been started stay in flight: a not-yet-started
		// agent queues them in its sockets and, at Start, several of its goroutines race to hand them
		// to the task loop - an order the simulator does not control at this level.
		own := map[*rig.AgentH]map[netip.Addr]bool{d.A: {}, d.B: {}}
		for _, ag := range []*rig.AgentH{d.A, d.B} {
			for _, cand := range ag.LocalCands() {
				own[ag][rig.CandAP(cand).Addr()] = true // includes relay addresses, which live on the relay host
			}
		}
		d.S.Hold = func(dg *simnet.Datagram) bool {
			if d.A.Conn == nil && (d.HA.Owns(dg.Dst.Addr()) || own[d.A][dg.Dst.Addr()]) {
				return true
			}
			return d.B.Conn == nil && (d.HB.Owns(dg.Dst.Addr()) || own[d.B][dg.Dst.Addr()])
		}
	}
	sig := func(from, to *rig.AgentH, cand ice.Candidate) func() {
		return func() {
			if err := d.Signal(from, to, cand); err != nil {
				c.Failf("harness/signal", "%v", err)
			}
		}
	}
	for _, cand := range d.A.LocalCands() {
		pend = append(pend, action{"sigAB", sig(d.A, d.B, cand)})
	}
	for _, cand := range d.B.LocalCands() {
		pend = append(pend, action{"sigBA", sig(d.B, d.A, cand)})
	}
	doOne := func(i int) {
		p := pend[i]
		pend = append(pend[:i], pend[i+1:]...)
		p.do()
		d.S.Settle()
	}
	checkingStart := c.Now()
	if !k.trickle {
		for len(pend) > 0 {
			doOne(c.T.Choose(len(pend), "sigorder"))
		}
	}

	// Fault phase: bounded by the per-pair retry budget (public configuration).
	budget := time.Duration(k.maxReq-2) * k.checkInterval
	if k.latency > 0 {
		budget = 0
		d.S.Latency = k.latency
		c.Fault("constant-latency-above-check-interval")
	}
	faultEnd := checkingStart + budget
	steps := 0
	// The retry budget is per pair and counted in requests: candidate arrivals trigger extra check
	// rounds, so the fault phase also ends as soon as any pair has used maxReq-2 of its requests.
	reqCount := map[[2]netip.AddrPort]int{}
	maxUsed := 0 // requests used by the busiest pair, as of the last budgetLeft()
	errUsed := 0 // requests (per pair, upper bound) that a socket refused with an error
	errLeft := 2
	budgetLeft := func() bool {
		d.W.Lock()
		wire := d.Wire[wireSeen:]
		wireSeen = len(d.Wire)
		d.W.Unlock()
		ok := true
		for _, w := range wire {
			if w.D.SockID < 0 || w.D.Dup {
				continue
			}
			if m := w.Msg(); m.IsSTUN && m.Class == stun.ClassRequest {
				k := [2]netip.AddrPort{w.D.Src, w.D.Dst}
				reqCount[k]++
			}
		}
		maxUsed = 0
		for _, n := range reqCount {
			n += errUsed // requests refused by the socket never reached the wire, yet they used up budget
			if n >= k.maxReq-2 {
				ok = false
			}
			if n > maxUsed {
				maxUsed = n
			}
		}
		return ok
	}
	for c.Now() < faultEnd && steps < 1500 && !c.Failed() && budgetLeft() {
		steps++
		if len(pend) > 0 && c.T.Bias(1, 6, "signalnow") {
			doOne(c.T.Choose(len(pend), "whichsignal"))
		} else if errLeft > 0 && k.maxReq-2-maxUsed-errUsed > 3 && c.T.Bias(1, 40, "sock-write-error") {
			// socket fault: for one check interval the operating system refuses every send of one agent with an
			// error (ENOBUFS, ENETUNREACH): each of its pairs loses at most two requests - a loss like any other
			errLeft--
			errUsed += 2
			h := []*simnet.Host{d.HA, d.HB}[c.T.Choose(2, "errhost")]
			var socks []*simnet.Sock
			for _, so := range d.W.Sockets() {
				if so.Host() == h && so.Tag != "service" && !so.Closed() {
					socks = append(socks, so)
				}
			}
			d.W.Lock()
			for _, so := range socks {
				so.WriteErr = syscall.ENOBUFS
			}
			d.W.Unlock()
			c.Fault("socket-write-error")
			d.S.Advance(k.checkInterval)
			d.W.Lock()
			for _, so := range socks {
				so.WriteErr = nil
			}
			d.W.Unlock()
		} else {
			remaining := faultEnd - c.Now()
			// never advance past the end of the fault budget - neither in time nor in requests: a jump of
			// n check intervals makes every pair use up to n more of its requests at once
			if byReq := time.Duration(k.maxReq-2-maxUsed) * k.checkInterval; byReq < remaining { // (maxUsed includes errUsed)
				remaining = byReq
			}
			saved := d.S.Deltas
			var ok []time.Duration
			for _, dl := range saved {
				if dl <= remaining {
					ok = append(ok, dl)
				}
			}
			if len(ok) == 0 {
				ok = []time.Duration{remaining}
			}
			d.S.Deltas = ok
			d.S.StepFaulty()
			d.S.Deltas = saved
		}
		s.checkSafety(anyBidir)
		c.State(s.stateKey())
		if s.hook != nil {
			s.hook("fault")
		}
	}
	c.Logf("fault phase over")

	// Fair suffix: remaining signalling, FIFO delivery, small time steps.
	for len(pend) > 0 {
		doOne(0)
	}
	deadline := checkingStart + k.disc + k.failed
	if k.liteB && deadline < checkingStart+5*time.Second+k.failed {
		deadline = checkingStart + 5*time.Second + k.failed
	}
	connected := func() bool {
		return d.A.LastState() == ice.ConnectionStateConnected && d.B.LastState() == ice.ConnectionStateConnected
	}
	sawFailed := func() bool {
		// only state events delivered after this generation began count (by position in the callback stream:
		// a Failed of the previous generation may carry the same simulated time as the Restart)
		for _, ag := range []*rig.AgentH{d.A, d.B} {
			for i, ev := range ag.StateSeq() {
				if i >= genStateIdx[ag] && ev.State == ice.ConnectionStateFailed {
					return true
				}
			}
		}
		return false
	}
	fairStep := k.checkInterval / 2
	for n := 0; n < 20000 && !c.Failed(); n++ {
		if anyBidir && connected() {
			break
		}
		if c.Now() > deadline+2*k.checkInterval+k.keepalive {
			break
		}
		d.S.StepFair(fairStep)
		s.checkSafety(anyBidir)
		c.State(s.stateKey())
		if s.hook != nil {
			s.hook("fair")
		}
	}
	if c.Failed() || s.noOracles {
		return
	}
	if anyBidir {
		if sawFailed() {
			c.Failf(s.pfx()+"/failed-despite-bidirectional-pair", "an agent reported Failed although a pair is reachable both ways (A=%v B=%v)", d.A.StateSeq(), d.B.StateSeq())
			return
		}
		if !connected() {
			c.Failf(s.pfx()+"/no-convergence", "not both Connected within the checking deadline after faults stopped: A=%s B=%s", d.A.LastState(), d.B.LastState())
			return
		}
		// let things settle for a while (late nominations, keepalives), then mirror oracle
		until := c.Now() + 2*k.keepalive + 4*k.checkInterval
		for c.Now() < until && !c.Failed() {
			d.S.StepFair(fairStep)
			s.checkSafety(anyBidir)
		}
		la, ra, oka := d.A.SelectedPair()
		lb, rb, okb := d.B.SelectedPair()
		if !oka || !okb {
			c.Failf(s.pfx()+"/no-selected-pair", "Connected but selected pair missing: A=%v B=%v", oka, okb)
			return
		}
		if why := s.mirror(la, ra, lb, rb); why != "" {
			c.Failf(s.pfx()+"/mirror-mismatch", "selected pairs are not mirror images (%s): A=%v->%v B=%v->%v", why, la, ra, lb, rb)
			return
		}
		if !connected() {
			c.Failf(s.pfx()+"/not-stable", "left Connected during a loss-free suffix: A=%s B=%s", d.A.LastState(), d.B.LastState())
			return
		}
		c.Logf("converged A=%v->%v", la, ra)
		if k.natA != 0 || k.natB != 0 {
			c.Probe(fmt.Sprintf("converged-behind-nat-kind-%d", k.natA+k.natB))
		}
		for _, rc := range d.B.RemoteCands() {
			if rig.CandAP(rc) == rb && rc.Type() == ice.CandidateTypePeerReflexive {
				c.Probe("selected-remote-prflx")
			}
		}
		lt, _ := typeOf(d.A, la), 0
		c.Probe("selected-local-" + lt)
	} else {
		c.Probe("no-bidirectional-pair")
		// ran to beyond the failure deadline without ever connecting (checked by checkSafety)
	}
}

func typeOf(a *rig.AgentH, ap netip.AddrPort) string {
	for _, cand := range a.LocalCands() {
		if rig.CandAP(cand) == ap {
			return cand.Type().String()
		}
	}
	return "unknown"
}

// restart performs an ICE restart on both sides (either order, arbitrary lag) and runs a new generation.
func (s *c01Session) restart() {
	d, c := s.d, s.c
	c.Probe("restart")
	order := c.T.Choose(2, "restartorder")
	ags := []*rig.AgentH{d.A, d.B}
	if order == 1 {
		ags[0], ags[1] = ags[1], ags[0]
	}
	for i, ag := range ags {
		uf, pw := rig.Creds(ag.Name, s.gen+1)
		c.Logf("restart %s in state %s", ag.Name, ag.LastState())
		if err := ag.A.Restart(uf, pw); err != nil {
			c.Failf("harness/restart", "%v", err)
			return
		}
		ag.Ufrag, ag.Pwd = uf, pw
		d.S.Settle()
		if i == 0 {
			lag := []time.Duration{0, 20 * time.Millisecond, 300 * time.Millisecond}[c.T.Choose(3, "restartlag")]
			for lag > 0 {
				// traffic keeps flowing between the two Restart calls
				d.S.StepFair(10 * time.Millisecond)
				lag -= 10 * time.Millisecond
			}
		}
	}
	for _, ag := range ags {
		if err := d.Gather(ag); err != nil {
			c.Failf("harness/gather", "%v", err)
			return
		}
	}
	s.generation(s.gen + 1)
}

// obs maps an address of ag's own host to what the other side observes (NAT public address).
func (s *c01Session) obs(ag *rig.AgentH, ip netip.Addr) netip.Addr {
	if ag.Host.NAT != nil && ag.Host.Owns(ip) {
		return ag.Host.NAT.Public
	}
	if ag.Host.NAT != nil {
		for _, own := range ag.Host.IPs() {
			if own == ip {
				return ag.Host.NAT.Public
			}
		}
	}
	return ip
}

// obsPeer maps a remote address as seen by ag (it already is an observed address).
func (s *c01Session) obsPeer(_ *rig.AgentH, ip netip.Addr) netip.Addr { return ip }

// sockOf finds the socket behind a local candidate address of ag.
func (s *c01Session) sockOf(ag *rig.AgentH, local netip.AddrPort) *simnet.Sock {
	for _, cand := range ag.LocalCands() {
		if rig.CandAP(cand) != local {
			continue
		}
		if cand.Type() == ice.CandidateTypeHost {
			return ag.Host.FindSock(local)
		}
		if cand.Type() == ice.CandidateTypeRelay {
			return s.d.W.FindSockAnywhere(local)
		}
		if ra := cand.RelatedAddress(); ra != nil {
			return ag.Host.SockByPort(uint16(ra.Port))
		}
	}
	return nil
}

// mirror: each side's selected local transport address is the address the other side selected as remote,
// modulo the NAT mapping in between. Returns "" when the two selections are mirror images.
func (s *c01Session) mirror(la, ra, lb, rb netip.AddrPort) string {
	d := s.d
	sa, sb := s.sockOf(d.A, la), s.sockOf(d.B, lb)
	if sa == nil || sb == nil {
		if la != rb || ra != lb {
			return "addresses differ"
		}
		return ""
	}
	obsA, okA := d.W.ObservedSrc(sa, ra)
	obsB, okB := d.W.ObservedSrc(sb, rb)
	switch {
	case !okA || obsA != rb:
		return fmt.Sprintf("B selected remote %v but observes A's selected local socket as %v", rb, obsA)
	case !okB || obsB != ra:
		return fmt.Sprintf("A selected remote %v but observes B's selected local socket as %v", ra, obsB)
	case d.W.RouteOf(obsA, ra) != sb:
		return fmt.Sprintf("A's selected remote %v does not lead to B's selected local socket", ra)
	case d.W.RouteOf(obsB, rb) != sa:
		return fmt.Sprintf("B's selected remote %v does not lead to A's selected local socket", rb)
	}
	return ""
}
