package checks

import (
	"fmt"
	"sync"
	"sync/atomic"
	"testing/synctest"
	"time"

	"github.com/pion/ice/v4"

	"verif/sim/core"
	"verif/sim/rig"
	"verif/sim/sched"
)

func init() {
	core.Register(&core.Spec{ID: "C11", Fn: runC11, HangIsViolation: true})
}

var c11Sites = []string{
	"notifier.EnqueueConnectionState.entry", "notifier.EnqueueCandidate.entry", "notifier.EnqueueSelectedCandidatePair.entry",
	"notifier.states.loopTop", "notifier.states.beforeHandler",
	"notifier.candidates.loopTop", "notifier.candidates.beforeHandler",
	"notifier.pairs.loopTop", "notifier.pairs.beforeHandler",
	"notifier.Close.entry", "harness.handler",
}

type c11Inv struct {
	stream string
	what   string
	enter  int64
	exit   int64
}

// runC11: two real agents; agent A's three handlers behave as the tape says (fast, sleep simulated
// time, block until released, re-enter the API, Close from inside, spawn GracefulClose); the notifier's
// goroutines are released one at a time at its Yield sites; Restart cancels gather cycles; Close or
// GracefulClose ends the run. Oracle: per stream the invocations equal the enqueue order (Note hook),
// once each, never overlapping; a gather cycle ends with at most one nil after its own candidates;
// after GracefulClose returned no handler is running and none is invoked.
func runC11(c *core.Ctx) {
	t := c.T
	if t.Bias(1, 10, "single-cycle-slow-sources") {
		runC11Gather(c)
		return
	}
	ci := 100 * time.Millisecond
	scheduled := !t.Bias(1, 4, "nosched")
	var s *sched.Sched
	loopSites := scheduled && t.Bias(1, 2, "loopsites")
	c.Knob("scheduled", scheduled)
	c.Knob("loopSites", loopSites)
	notes := rig.InstallNotes(c)
	opts := func() []ice.AgentOption {
		return []ice.AgentOption{ice.WithCheckInterval(ci), ice.WithKeepaliveInterval(300 * time.Millisecond),
			ice.WithDisconnectedTimeout(time.Second), ice.WithFailedTimeout(2 * time.Second),
			ice.WithCandidateTypes([]ice.CandidateType{ice.CandidateTypeHost, ice.CandidateTypeServerReflexive}),
			ice.WithSrflxAcceptanceMinWait(0), ice.WithMaxBindingRequests(100)}
	}
	d, err := rig.NewDuo(c, rig.DuoCfg{AddrsA: c01Addrs("10.0.1", t.Range(1, 3, "nA")), AddrsB: []string{"10.0.2.10"},
		AliasA: "198.51.100.1", OptsA: opts(), OptsB: opts()})
	if err != nil {
		c.Failf("harness/setup", "%v", err)
		return
	}
	A, B := d.A, d.B
	if scheduled {
		// installed only now: constructing an agent submits to its own loop from this (the root) goroutine
		sites := c11Sites
		if loopSites {
			// also park every submission to the task loop at its entry: work queued behind the loop (a Restart
			// racing the end of a gather cycle, a Close racing an enqueue) is then ordered by the tape
			sites = append(append([]string{}, c11Sites...), "taskloop.Run.entry")
		}
		s = sched.Install(c, sites)
	}

	var seq atomic.Int64
	var mu sync.Mutex
	var invs []*c11Inv
	var gracefulReturned atomic.Int64 // seq at which GracefulClose returned (0 = not yet)
	var closeCalled atomic.Bool
	behaviour := func(stream, what string) {
		inv := &c11Inv{stream: stream, what: what, enter: seq.Add(1)}
		mu.Lock()
		invs = append(invs, inv)
		mu.Unlock()
		defer func() { inv.exit = seq.Add(1) }()
		switch t.Pick([]int{6, 2, 2, 2, 1, 1}, "behaviour") {
		case 1:
			time.Sleep(30 * time.Millisecond)
			c.Fault("handler-sleeps")
		case 2:
			if s != nil {
				s.Yield("harness.handler")
				c.Fault("handler-blocks")
			}
		case 3:
			_, _ = A.A.GetLocalCandidates()
			_, _ = A.A.GetSelectedCandidatePair()
			if c.T.Bias(1, 3, "reinstall-handlers") {
				A.ReRegister() // the handler (re)installs the handlers from inside a callback
			}
			c.Fault("handler-reenters-api")
		case 4:
			closeCalled.Store(true)
			_ = A.A.Close()
			c.Fault("handler-closes-agent")
		case 5:
			if !closeCalled.Swap(true) {
				c.Fault("handler-spawns-gracefulclose")
				go func() {
					_ = A.A.GracefulClose()
					gracefulReturned.Store(seq.Add(1))
				}()
			}
		}
	}
	A.OnState = func(st ice.ConnectionState) { behaviour("state", st.String()) }
	A.OnCand = func(cand ice.Candidate) {
		if cand == nil {
			behaviour("candidate", "<nil>")
			return
		}
		uf, _ := cand.GetExtension("ufrag")
		behaviour("candidate", rig.CandAddr(cand)+"@"+uf.Value)
	}
	A.OnPair = func(l, r ice.Candidate) { behaviour("pair", rig.CandAddr(l)+"<->"+rig.CandAddr(r)) }

	idle := func() bool { return s == nil || s.NumParked() == 0 }
	signalled := map[string]bool{}
	signalNew := func() {
		for _, pr := range [][2]*rig.AgentH{{A, B}, {B, A}} {
			for _, cand := range pr[0].CandSeq() {
				if cand == nil {
					continue
				}
				key := pr[0].Name + cand.Marshal()
				if !signalled[key] {
					signalled[key] = true
					_ = d.Signal(pr[0], pr[1], cand)
				}
			}
		}
	}
	// step: one simulator action; parked notifier goroutines and network actions compete
	step := func() {
		synctest.Wait()
		if s != nil && s.NumParked() > 0 && (t.Bias(2, 3, "preferpark") || len(d.W.Parked())+len(d.S.Eligible()) == 0) {
			s.Step()
			return
		}
		c.Step++
		if p := d.W.Parked(); len(p) > 0 {
			d.W.Release(p[0])
			return
		}
		if pool := d.S.Eligible(); len(pool) > 0 {
			d.W.Deliver(pool[0])
			return
		}
		time.Sleep(ci / 2)
	}

	// serve runs an API call on a helper goroutine and keeps releasing parked goroutines until it returns:
	// a call that goes through the loop may find the loop goroutine parked at an Enqueue site.
	serve := func(f func()) {
		done := make(chan struct{})
		go func() { f(); close(done) }()
		for i := 0; i < 2000; i++ {
			synctest.Wait()
			select {
			case <-done:
				return
			default:
			}
			if s != nil && s.NumParked() > 0 {
				s.Step()
			} else if p := d.W.Parked(); len(p) > 0 {
				d.W.Release(p[0])
			} else {
				time.Sleep(time.Millisecond)
			}
		}
		c.Failf("C11/api-call-never-returns", "an API call did not return although the simulator kept serving parked goroutines (parked: %v)", func() string {
			if s != nil {
				return s.Describe()
			}
			return ""
		}())
	}

	restartNoteIdx := -1 // number of notes collected when A's Restart returned
	var cycleUfrag []string
	gather := func() {
		if err := A.A.GatherCandidates(); err == nil {
			cycleUfrag = append(cycleUfrag, A.Ufrag)
		}
		if t.Bias(1, 4, "back-to-back-gather") {
			// a second call before the first cycle has advanced the gathering state: refused, or it supersedes
			// the first cycle - either way the generation still gets one end-of-candidates, after its candidates
			_ = A.A.GatherCandidates()
			c.Fault("back-to-back-gather")
		}
		_ = B.A.GatherCandidates()
	}
	// API calls that go through A's loop are only issued while nothing is parked (a parked Enqueue site
	// holds the loop goroutine, and the root goroutine must never block on it)
	serve(gather)
	n1 := t.Range(0, 40, "n1")
	started := false
	for i := 0; i < n1 && !c.Failed(); i++ {
		step()
		synctest.Wait()
		if !closeCalled.Load() && idle() {
			signalNew()
			if !started && i >= 3 {
				started = true
				serve(func() {
					A.Conn, _ = A.A.StartDial(B.Ufrag, B.Pwd)
					B.Conn, _ = B.A.StartAccept(A.Ufrag, A.Pwd)
				})
			}
		}
	}
	synctest.Wait()
	if t.Bias(1, 2, "restart") && !closeCalled.Load() {
		// (goroutines may be parked at this point, e.g. a gatherer about to submit its completion to the
		// loop: the Restart is then ordered against them by the scheduler)
		c.Fault("restart")
		serve(func() {
			uf, pw := rig.Creds("A", 1)
			if err := A.A.Restart(uf, pw); err == nil {
				A.Ufrag, A.Pwd = uf, pw
				restartNoteIdx = notes.Len()
			}
			uf, pw = rig.Creds("B", 1)
			if err := B.A.Restart(uf, pw); err == nil {
				B.Ufrag, B.Pwd = uf, pw
			}
			gather()
			_ = A.A.SetRemoteCredentials(B.Ufrag, B.Pwd)
			_ = B.A.SetRemoteCredentials(A.Ufrag, A.Pwd)
		})
		n2 := t.Range(5, 30, "n2")
		for i := 0; i < n2 && !c.Failed(); i++ {
			step()
			synctest.Wait()
			if !closeCalled.Load() && idle() {
				signalNew()
			}
		}
	}
	// final close (if no handler did it): Close or GracefulClose from an API goroutine
	if !closeCalled.Swap(true) {
		graceful := t.Bias(1, 2, "graceful")
		go func() {
			if graceful {
				_ = A.A.GracefulClose()
				gracefulReturned.Store(seq.Add(1))
			} else {
				_ = A.A.Close()
			}
		}()
	}
	// run everything down (the peer is closed too: its periodic loop submissions would park for ever)
	go func() { _ = B.A.Close() }()
	quiet := 0
	for i := 0; i < 4000 && quiet < 40; i++ {
		synctest.Wait()
		if s != nil && s.NumParked() > 0 {
			s.Step()
			quiet = 0
			continue
		}
		if p := d.W.Parked(); len(p) > 0 {
			d.W.Release(p[0])
			quiet = 0
			continue
		}
		quiet++
		time.Sleep(ci)
	}
	synctest.Wait()
	if s != nil && s.NumParked() > 0 {
		c.Failf("C11/never-quiesces", "goroutines still parked after the step budget: %s", s.Describe())
		return
	}

	// ---- oracles over the recorded history
	mu.Lock()
	all := append([]*c11Inv(nil), invs...)
	mu.Unlock()
	per := map[string][]*c11Inv{}
	for _, inv := range all {
		per[inv.stream] = append(per[inv.stream], inv)
	}
	for stream, list := range per {
		for i, inv := range list {
			if inv.exit == 0 {
				c.Failf("C11/handler-never-returned", "%s handler for %s never returned", stream, inv.what)
				return
			}
			if i > 0 && list[i-1].exit > inv.enter {
				c.Failf("C11/handler-overlap", "%s handler for %q entered (seq %d) before the previous invocation for %q returned (seq %d)",
					stream, inv.what, inv.enter, list[i-1].what, list[i-1].exit)
				return
			}
			if g := gracefulReturned.Load(); g != 0 && inv.exit > g {
				c.Failf("C11/handler-after-gracefulclose", "%s handler for %q was still running or invoked after GracefulClose returned", stream, inv.what)
				return
			}
		}
	}
	if ov := append(A.Overlaps(), B.Overlaps()...); len(ov) > 0 {
		c.Failf("C11/handler-overlap", "overlapping invocations detected on streams %v", ov)
		return
	}
	// order and exactly-once: what each agent's handlers saw equals what one notifier enqueued
	groups := map[string]map[any][]string{"state": {}, "candidate": {}, "pair": {}}
	groupIdx := map[any][]int{}
	var order = map[string][]any{}
	for noteIdx, ev := range notes.Take() {
		e, ok := ev.V.(ice.VerifEvent)
		if !ok {
			continue
		}
		kind, val := "", ""
		switch ev.Site {
		case "enqueue.state":
			kind = "state"
			val = fmt.Sprint(e.V)
		case "enqueue.candidate":
			kind = "candidate"
			if cand, ok := e.V.(ice.Candidate); ok && cand != nil {
				val = fmt.Sprintf("%p", cand)
			} else {
				val = "<nil>"
			}
		case "enqueue.pair":
			kind = "pair"
			if p, ok := e.V.(*ice.CandidatePair); ok && p != nil {
				val = "udp/" + rig.CandAP(p.Local).String() + "<->udp/" + rig.CandAP(p.Remote).String()
			}
		default:
			continue
		}
		if _, ok := groups[kind][e.Src]; !ok {
			order[kind] = append(order[kind], e.Src)
		}
		groups[kind][e.Src] = append(groups[kind][e.Src], val)
		groupIdx[e.Src] = append(groupIdx[e.Src], noteIdx)
	}
	for _, ag := range []*rig.AgentH{A, B} {
		seen := map[string][]string{}
		for _, st := range ag.StateSeq() {
			seen["state"] = append(seen["state"], st.State.String())
		}
		for _, cand := range ag.CandSeq() {
			if cand == nil {
				seen["candidate"] = append(seen["candidate"], "<nil>")
			} else {
				seen["candidate"] = append(seen["candidate"], fmt.Sprintf("%p", cand))
			}
		}
		for _, p := range ag.SelectedSeq() {
			seen["pair"] = append(seen["pair"], p.Local+"<->"+p.Remote)
		}
		for _, kind := range []string{"state", "candidate", "pair"} {
			matched := len(seen[kind]) == 0
			var cands [][]string
			for _, src := range order[kind] {
				g := groups[kind][src]
				cands = append(cands, g)
				if equalStrings(g, seen[kind]) {
					matched = true
				}
			}
			if !matched {
				c.Failf("C11/delivery-differs-from-enqueue-order", "%s: %s handler saw %v; the notifiers enqueued %v", ag.Name, kind, seen[kind], cands)
				return
			}
		}
	}
	// a cycle cancelled by Restart emits no nil: in A's candidate stream, an end-of-gathering marker enqueued
	// after the Restart returned must be preceded by a candidate that was enqueued after it as well
	if restartNoteIdx >= 0 {
		var aSeen []string
		for _, cand := range A.CandSeq() {
			if cand == nil {
				aSeen = append(aSeen, "<nil>")
			} else {
				aSeen = append(aSeen, fmt.Sprintf("%p", cand))
			}
		}
		for _, src := range order["candidate"] {
			g := groups["candidate"][src]
			if !equalStrings(g, aSeen) {
				continue
			}
			idx := groupIdx[src]
			newCycleCand := false
			for i, v := range g {
				if idx[i] < restartNoteIdx {
					continue
				}
				if v != "<nil>" {
					newCycleCand = true
				} else if !newCycleCand {
					c.Failf("C11/nil-for-cancelled-cycle", "an end-of-gathering marker was enqueued after Restart had returned, before any candidate of the new cycle: it belongs to the cycle the Restart cancelled")
					return
				}
			}
			c.Probe("restart-cycle-checked")
			break
		}
	}
	// gather cycles (agent A): a candidate never follows the nil of its own cycle, never two nils in a row
	// for one cycle, at most one nil per started cycle
	nils := 0
	nilFor := map[string]bool{}
	last := ""
	for _, inv := range per["candidate"] {
		if inv.what == "<nil>" {
			nils++
			if last != "" {
				if nilFor[last] {
					c.Failf("C11/second-nil-for-cycle", "a second end-of-gathering marker was delivered for the cycle of ufrag %s", last)
					return
				}
				nilFor[last] = true
			}
			continue
		}
		uf := lastAt(inv.what)
		if nilFor[uf] {
			c.Failf("C11/candidate-after-its-nil", "candidate %s delivered after the end-of-gathering marker of its own cycle", inv.what)
			return
		}
		if !contains(cycleUfrag, uf) {
			c.Failf("C11/candidate-of-unknown-cycle", "candidate %s carries a ufrag of no started cycle %v", inv.what, cycleUfrag)
			return
		}
		last = uf
	}
	if nils > len(cycleUfrag) {
		c.Failf("C11/too-many-nil-candidates", "%d gather cycles were started on A, %d end-of-gathering markers were delivered", len(cycleUfrag), nils)
		return
	}
	c.Probe(fmt.Sprintf("nils-%d-of-%d-cycles", nils, len(cycleUfrag)))
	if g := gracefulReturned.Load(); g != 0 {
		c.Probe("gracefulclose-returned")
	}
	if s != nil {
		for site, n := range s.Parks {
			if n > 0 {
				c.Probe("site:" + site)
			}
		}
	}
}

func equalStrings(a, b []string) bool {
	if len(a) != len(b) {
		return false
	}
	for i := range a {
		if a[i] != b[i] {
			return false
		}
	}
	return true
}

func lastAt(s string) string {
	for i := len(s) - 1; i >= 0; i-- {
		if s[i] == '@' {
			return s[i+1:]
		}
	}
	return ""
}

func contains(l []string, x string) bool {
	for _, y := range l {
		if y == x {
			return true
		}
	}
	return false
}
