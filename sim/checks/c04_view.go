package checks

import (
	"fmt"
	"sync"
	"testing/synctest"
	"time"

	"github.com/pion/ice/v4"

	"verif/sim/core"
	"verif/sim/rig"
	"verif/sim/sched"
)

// runC04HandlerView: what a state handler sees of the agent at the moment it is called. The loop goroutine
// parks right after it has handed a state to the notifier (Yield site); the notifier's goroutine is not
// parked, so the handler runs while the loop stands exactly there. The handler looks at the agent through
// the lock-free getter: "Connected/Disconnected are reported only while a selected pair exists; Failed only
// after selection, pairs and candidates were released".
func runC04HandlerView(c *core.Ctx) {
	t := c.T
	ci := 50 * time.Millisecond
	D := 300 * time.Millisecond
	F := []time.Duration{400 * time.Millisecond, 0}[t.Choose(2, "F")]
	opts := func() []ice.AgentOption {
		return []ice.AgentOption{ice.WithCheckInterval(ci), ice.WithKeepaliveInterval(100 * time.Millisecond),
			ice.WithDisconnectedTimeout(D), ice.WithFailedTimeout(F),
			ice.WithCandidateTypes([]ice.CandidateType{ice.CandidateTypeHost}), ice.WithMaxBindingRequests(1000)}
	}
	c.Knob("scenario", "handler-view-at-enqueue")
	d, err := rig.NewDuo(c, rig.DuoCfg{AddrsA: []string{"10.0.1.10"}, AddrsB: []string{"10.0.2.10"}, OptsA: opts(), OptsB: opts()})
	if err != nil {
		c.Failf("harness/setup", "%v", err)
		return
	}
	A, B := d.A, d.B
	type view struct {
		state    ice.ConnectionState
		selected bool
		sockets  int // open sockets of the agent's host at that moment
	}
	var mu sync.Mutex
	var views []view
	openSocks := func() int {
		n := 0
		for _, so := range d.W.Sockets() {
			if so.Host() == d.HA && so.Tag != "service" && !so.Closed() {
				n++
			}
		}
		return n
	}
	A.OnState = func(st ice.ConnectionState) {
		p, _ := A.A.GetSelectedCandidatePair()
		mu.Lock()
		views = append(views, view{st, p != nil, openSocks()})
		mu.Unlock()
	}
	for _, ag := range []*rig.AgentH{A, B} {
		if err := d.Gather(ag); err != nil {
			c.Failf("harness/gather", "%v", err)
			return
		}
	}
	for _, cand := range A.LocalCands() {
		_ = d.Signal(A, B, cand)
	}
	for _, cand := range B.LocalCands() {
		_ = d.Signal(B, A, cand)
	}
	d.S.Settle()
	s := sched.Install(c, []string{"agent.updateConnectionState.afterEnqueue"})
	pump := func() {
		for i := 0; i < 100; i++ {
			synctest.Wait()
			if s.NumParked() == 0 {
				return
			}
			s.ReleaseIdx(0)
		}
	}
	serve := func(f func()) {
		done := make(chan struct{})
		go func() { f(); close(done) }()
		for i := 0; i < 500; i++ {
			pump()
			select {
			case <-done:
				return
			default:
				time.Sleep(time.Millisecond)
			}
		}
		c.Failf("C04/api-call-never-returns", "an API call did not return although the parked loop goroutines were released")
	}
	serve(func() {
		A.Conn, _ = A.A.StartDial(B.Ufrag, B.Pwd)
		B.Conn, _ = B.A.StartAccept(A.Ufrag, A.Pwd)
	})
	for i := 0; i < 300 && !c.Failed() && !(A.LastState() == ice.ConnectionStateConnected && B.LastState() == ice.ConnectionStateConnected); i++ {
		pool := d.S.Eligible()
		if len(pool) > 0 {
			d.W.Deliver(pool[0])
		} else {
			time.Sleep(ci / 2)
		}
		pump()
	}
	// the peer falls silent: Disconnected, then Failed (if enabled)
	c.Fault("total-silence")
	for el := time.Duration(0); el < D+F+time.Second && !c.Failed(); el += ci {
		for _, dg := range d.W.InFlight() {
			d.W.Drop(dg)
		}
		time.Sleep(ci)
		pump()
	}
	if t.Bias(1, 2, "close") {
		serve(func() { _ = A.A.Close() })
	}
	pump()
	s.Uninstall()
	mu.Lock()
	vs := append([]view(nil), views...)
	mu.Unlock()
	for _, v := range vs {
		switch v.state {
		case ice.ConnectionStateConnected, ice.ConnectionStateDisconnected:
			if !v.selected {
				c.Failf("C04/handler-view", "the handler was called with %s while the agent had no selected pair", v.state)
				return
			}
		case ice.ConnectionStateFailed:
			if v.selected || v.sockets > 0 {
				c.Failf("C04/handler-view", "the handler was called with Failed while the agent still had a selected pair (%v) or %d open candidate socket(s): Failed is reported only after selection, pairs and candidates were released", v.selected, v.sockets)
				return
			}
			c.Probe("failed-seen-by-handler-at-enqueue")
		}
	}
	c.Probe(fmt.Sprintf("handler-views-%d", len(vs)))
	c.MarkNontrivial()
}
