package checks

import (
	"bytes"
	"fmt"
	"net"
	"net/netip"
	"sync"
	"testing/synctest"
	"time"

	"github.com/pion/ice/v4"
	"github.com/pion/stun/v3"

	"verif/sim/core"
	"verif/sim/rig"
	"verif/sim/simnet"
	"verif/sim/simstream"
)

// runC07TCP: the agent has a UDP host candidate and an ICE-TCP passive candidate (real TCPMuxDefault on a
// simulated listener); a scripted controlling peer connects over TCP, performs the checks by hand
// (pion/stun only) and nominates the TCP pair, so the SELECTED pair is a TCP pair. Then datagrams arrive
// over UDP from the very ip:port that is known only as a TCP remote: they must not reach the reader
// ("known remote candidate on the same transport"); data over the TCP connection must.
func runC07TCP(c *core.Ctx) {
	t := c.T
	w := simnet.NewWorld()
	hb := w.SimpleHost("B", "10.0.2.10")
	lst := simstream.Listen(&net.TCPAddr{IP: net.ParseIP("10.0.2.10"), Port: 7100})
	mux := ice.NewTCPMuxDefault(ice.TCPMuxParams{Listener: lst, Logger: rig.Quiet().NewLogger("tcpmux"), ReadBufferSize: 16})
	c.Defer(func() { _ = mux.Close() })
	ice.VerifSeedGlobalRand(1)
	B, err := rig.NewAgent("B", hb, time.Now(),
		ice.WithNetworkTypes([]ice.NetworkType{ice.NetworkTypeUDP4, ice.NetworkTypeTCP4}),
		ice.WithCandidateTypes([]ice.CandidateType{ice.CandidateTypeHost}),
		ice.WithTCPMux(mux), ice.WithDisableActiveTCP(),
		ice.WithCheckInterval(50*time.Millisecond), ice.WithKeepaliveInterval(0),
		ice.WithDisconnectedTimeout(0), ice.WithFailedTimeout(0), ice.WithPrflxAcceptanceMinWait(0))
	if err != nil {
		c.Failf("harness/setup", "%v", err)
		return
	}
	c.Defer(func() { _ = B.A.Close() })
	if err := B.A.GatherCandidates(); err != nil {
		c.Failf("harness/gather", "%v", err)
		return
	}
	for i := 0; i < 50; i++ {
		synctest.Wait()
		cs := B.CandSeq()
		if len(cs) > 0 && cs[len(cs)-1] == nil {
			break
		}
		time.Sleep(10 * time.Millisecond)
	}
	var udpLocal netip.AddrPort
	haveTCP := false
	for _, cand := range B.LocalCands() {
		if cand.NetworkType().IsUDP() {
			udpLocal = rig.CandAP(cand)
		} else {
			haveTCP = true
		}
	}
	if !udpLocal.IsValid() || !haveTCP {
		c.Failf("harness/candidates", "expected a UDP and a TCP host candidate, got %v", candList(B.LocalCands()))
		return
	}
	peerU, peerP := "peeru", "peerpwdxxxxxxxxxxxxxxxxxxxxxxxx"
	B.Conn, err = B.A.StartAccept(peerU, peerP)
	if err != nil {
		c.Failf("harness/start", "%v", err)
		return
	}
	synctest.Wait()
	// reader on the agent's Conn
	var mu sync.Mutex
	var reads [][]byte
	go func() {
		buf := make([]byte, 9000)
		for {
			n, err := B.Conn.Read(buf)
			if err != nil {
				return
			}
			mu.Lock()
			reads = append(reads, append([]byte(nil), buf[:n]...))
			mu.Unlock()
		}
	}()

	// scripted controlling peer over TCP
	peerAddr := &net.TCPAddr{IP: net.ParseIP("10.0.3.10"), Port: 6000 + t.Choose(3, "peerport")}
	cl, err := lst.Dial(peerAddr, simstream.DialOpts{})
	if err != nil {
		c.Failf("harness/dial", "%v", err)
		return
	}
	var rmu sync.Mutex
	var stream []byte
	go func() {
		buf := make([]byte, 4096)
		for {
			n, err := cl.Read(buf)
			rmu.Lock()
			stream = append(stream, buf[:n]...)
			rmu.Unlock()
			if err != nil {
				return
			}
		}
	}()
	send := func(p []byte) {
		if _, err := cl.Write(tsEnc(p)); err != nil {
			c.Logf("peer write: %v", err)
		}
		synctest.Wait()
	}
	tb := uint64(4242)
	req := rig.MsgSpec{Method: stun.MethodBinding, Class: stun.ClassRequest, Seq: 1, Username: rig.Str(B.Ufrag + ":" + peerU),
		Key: B.Pwd, Priority: rig.U32(110<<24 + 65535<<8 + 255), Controlling: &tb, UseCandidate: true}
	send(req.Build())
	// answer the agent's own (triggered / periodic) checks until the pair is selected
	answered := 0
	off := 0
	for i := 0; i < 60; i++ {
		synctest.Wait()
		rmu.Lock()
		cur := append([]byte(nil), stream...)
		rmu.Unlock()
		for {
			p, _, next, st := tsDec(cur, off)
			if st != tsFrameOK {
				break
			}
			off = next
			m := rig.Decode(p)
			if m.IsSTUN && m.Class == stun.ClassRequest {
				addr := netip.MustParseAddrPort("10.0.2.10:7100")
				id := m.TxID
				resp := rig.MsgSpec{Method: stun.MethodBinding, Class: stun.ClassSuccessResponse, TxID: &id, XorAddr: &addr, Key: peerP}
				send(resp.Build())
				answered++
			}
		}
		if _, _, ok := B.SelectedPair(); ok {
			break
		}
		time.Sleep(25 * time.Millisecond)
	}
	l, r, ok := B.SelectedPair()
	if !ok {
		c.Probe("tcp-pair-not-selected")
		return
	}
	c.Probe("tcp-pair-selected")
	c.Logf("selected %v<->%v after answering %d checks", l, r, answered)
	peerAP := netip.AddrPortFrom(netip.MustParseAddr("10.0.3.10"), uint16(peerAddr.Port))
	if r != peerAP {
		c.Failf("harness/selected", "selected remote %v, expected the TCP peer %v", r, peerAP)
		return
	}
	// the data phase
	var expect [][]byte
	n := t.Range(3, 12, "ndata")
	for i := 0; i < n && !c.Failed(); i++ {
		payload := []byte(fmt.Sprintf("\x40payload-%02d-%s", i, bytes.Repeat([]byte{'x'}, t.Choose(40, "pad"))))
		switch t.Pick([]int{2, 3, 1}, "via") {
		case 0: // over the TCP connection: the selected pair's remote, same transport
			send(payload)
			expect = append(expect, payload)
			c.Fault("data-over-tcp")
		case 1: // over UDP from the ip:port that is a remote candidate only on TCP
			dg := w.Inject(peerAP, udpLocal, payload, "udp-from-tcp-remote")
			w.Deliver(dg)
			c.Fault("data-over-udp-from-tcp-only-remote")
		case 2: // over UDP from an unknown address
			dg := w.Inject(netip.MustParseAddrPort("192.0.2.9:999"), udpLocal, payload, "udp-unknown")
			w.Deliver(dg)
			c.Fault("data-over-udp-from-unknown")
		}
		synctest.Wait()
		mu.Lock()
		got := append([][]byte(nil), reads...)
		mu.Unlock()
		if len(got) > len(expect) {
			c.Failf("C07/reader-got-unexpected-packet", "reader returned %q which arrived over UDP from an address that is a known remote only on TCP (or from an unknown address); selected pair is %v<->%v (tcp)",
				trunc(got[len(got)-1]), l, r)
			return
		}
		if len(got) < len(expect) {
			c.Failf("C07/reader-missed-packet", "data sent over the selected TCP pair did not reach the reader (%d of %d)", len(got), len(expect))
			return
		}
		for j := range got {
			if !bytes.Equal(got[j], expect[j]) {
				c.Failf("C07/reader-payload-mismatch", "reader packet %d = %q, sent %q", j, trunc(got[j]), trunc(expect[j]))
				return
			}
		}
	}
	if uint64(func() int {
		s := 0
		for _, e := range expect {
			s += len(e)
		}
		return s
	}()) != B.Conn.BytesReceived() {
		c.Failf("C07/bytes-received-counter", "BytesReceived=%d does not match what Read returned", B.Conn.BytesReceived())
	}
	_ = cl.Close()
}
