package checks

import (
	"bytes"
	"errors"
	"fmt"
	"io"
	"net/netip"
	"sync"
	"sync/atomic"
	"time"

	"github.com/pion/ice/v4"
	"github.com/pion/stun/v3"

	"verif/sim/core"
	"verif/sim/rig"
	"verif/sim/simnet"
)

func init() {
	core.Register(&core.Spec{ID: "C07", Fn: runC07})
}

type c07Side struct {
	ag   *rig.AgentH
	host *simnet.Host
	peer *c07Side

	mu      sync.Mutex
	reads   [][]byte // what Conn.Read returned, in order
	readErr error
	reader  bool
	gate    chan struct{} // non-nil: the application is not reading for the moment (the reader waits here between reads)
	flooded bool
	// smallNext: the reader's next Read passes a buffer of this many bytes (0 = a large one); short[i] marks
	// reads that came back with io.ErrShortBuffer (the datagram's first bytes, which count as returned)
	smallNext atomic.Int32
	short     map[int]bool

	expect      [][]byte // delivered non-STUN datagrams from known remotes, in delivery order
	expectSrc   []netip.AddrPort
	sentBytes   uint64 // payload bytes accepted by Write
	readChecked int

	// selected-pair counter baselines
	selKey           string
	basePS, basePR   uint32
	baseBS, baseBR   uint64
	tallyPS, tallyPR uint32
	tallyBS, tallyBR uint64
}

// runC07: application data interleaved with connectivity checks; writes before/after selection,
// STUN-looking payloads, inbound non-STUN datagrams from selected/known/other-transport/unknown sources.
func runC07(c *core.Ctx) {
	if c.T.Bias(1, 6, "tcp-scenario") {
		c.Knob("scenario", "tcp-selected")
		runC07TCP(c)
		return
	}
	k := drawC01Knobs(c)
	k.liteB, k.restart = false, false
	if k.blockPct > 40 {
		k.blockPct = 40
	}
	opts := func() []ice.AgentOption {
		return []ice.AgentOption{
			ice.WithCheckInterval(k.checkInterval), ice.WithKeepaliveInterval(k.keepalive),
			ice.WithDisconnectedTimeout(k.disc), ice.WithFailedTimeout(k.failed),
			ice.WithMaxBindingRequests(uint16(k.maxReq)),
			ice.WithSrflxAcceptanceMinWait(0), ice.WithPrflxAcceptanceMinWait(0),
			// a long host wait keeps the session between "first valid pair" and "selection" for a while
			ice.WithHostAcceptanceMinWait([]time.Duration{0, 300 * time.Millisecond}[c.T.Choose(2, "hostwait")]),
			ice.WithCandidateTypes([]ice.CandidateType{ice.CandidateTypeHost, ice.CandidateTypeServerReflexive}),
			ice.WithDisableActiveTCP(),
			ice.WithRenomination(ice.DefaultNominationValueGenerator()),
		}
	}
	cfg := rig.DuoCfg{AddrsA: c01Addrs("10.0.1", k.nA), AddrsB: c01Addrs("10.0.2", k.nB), OptsA: opts(), OptsB: opts()}
	if k.aliasA {
		cfg.AliasA = "198.51.100.1"
	}
	if k.aliasB {
		cfg.AliasB = "198.51.100.2"
	}
	d, err := rig.NewDuo(c, cfg)
	if err != nil {
		c.Failf("harness/setup", "%v", err)
		return
	}
	d.S.DropW, d.S.DupW, d.S.ReorderW, d.S.AdvanceW = k.dropW, k.dupW, k.reorderW, k.advW
	for _, ag := range []*rig.AgentH{d.A, d.B} {
		if err := d.Gather(ag); err != nil {
			c.Failf("harness/gather", "%v", err)
			return
		}
	}
	sa := &c07Side{ag: d.A, host: d.HA}
	sb := &c07Side{ag: d.B, host: d.HB}
	sa.peer, sb.peer = sb, sa
	sides := []*c07Side{sa, sb}
	o := &c07Oracle{c: c, d: d, sides: sides}

	// record what should reach each reader: evaluated at delivery time against the public remote list
	d.S.Hold = nil
	preKnown := map[*c07Side]map[string]bool{}
	stale := map[*c07Side]netip.AddrPort{}
	d.S.AfterDeliver = func(dg *simnet.Datagram, res simnet.DeliverResult, to *simnet.Sock) {
		if res != simnet.Delivered || to == nil || stun.IsMessage(dg.Payload) {
			return
		}
		for _, s := range sides {
			if to.Host() != s.host || s.ag.Conn == nil {
				continue
			}
			if stale[s] == dg.Src {
				// an address that was a remote candidate only in a generation ended by Restart is unknown now,
				// whatever the agent's own list says
				c.Probe("data-from-remote-of-ended-generation")
				continue
			}
			if preKnown[s]["udp/"+dg.Src.String()] {
				s.expect = append(s.expect, append([]byte(nil), dg.Payload...))
				s.expectSrc = append(s.expectSrc, dg.Src)
				if s.selKey != "" {
					s.tallyPR++
					s.tallyBR += uint64(len(dg.Payload))
				}
			} else {
				c.Probe("data-from-unknown-source-delivered")
			}
		}
	}
	// known-remote sets are sampled before every step (deliveries decide against the state at arrival)
	refreshKnown := func() {
		for _, s := range sides {
			m := map[string]bool{}
			for _, rc := range s.ag.RemoteCands() {
				if rc.NetworkType().IsUDP() {
					m[rig.CandAddr(rc)] = true
				}
			}
			preKnown[s] = m
		}
	}

	sess := &c01Session{c: c, d: d, k: k, noOracles: true}
	sess.hook = func(string) {
		if c.Failed() {
			return
		}
		o.startReaders()
		o.check()
		refreshKnown()
		switch c.T.Pick([]int{48, 16, 8, 4, 1}, "c07op") {
		case 1:
			o.write()
		case 2:
			o.injectData()
		case 3:
			o.tcpRemote()
		case 4:
			o.flood()
		}
		o.check()
		refreshKnown()
	}
	refreshKnown()
	sess.generation(0)
	extra := c.T.Range(10, 60, "extra")
	renomAt := -1
	if c.T.Bias(1, 2, "renominate") {
		renomAt = c.T.Choose(extra, "renomat")
	}
	for i := 0; i < extra && !c.Failed(); i++ {
		refreshKnown()
		if i == renomAt {
			// re-selection in the middle of the data phase: the controlling side renominates another validated pair
			snap := rig.TakeSnap(d.A)
			var other []rig.PairSnap
			for _, p := range snap.Pairs {
				if p.State == ice.CandidatePairStateSucceeded && p.Key() != snap.Selected {
					other = append(other, p)
				}
			}
			if len(other) > 0 && snap.Selected != "" {
				p := other[c.T.Choose(len(other), "renompair")]
				if lc, rc := c20Find(d.A, p.Local, p.Remote); lc != nil && rc != nil {
					if err := d.A.A.RenominateCandidate(lc, rc); err == nil {
						c.Fault("renominate-during-data")
						c.Logf("renominate %s", p.Key())
					}
					d.S.Settle()
				}
			}
		}
		d.S.StepFair(k.checkInterval)
		sess.hook("connected")
	}
	if !c.Failed() {
		o.final()
	}
	if c.Failed() || !c.T.Bias(1, 3, "restart-data") {
		return
	}
	// Restart: the data path must fail closed until a pair of the new generation is validated, and work again
	c.Fault("restart-during-data")
	lateAddr := map[*c07Side]netip.AddrPort{sa: netip.MustParseAddrPort("10.0.2.99:9999"), sb: netip.MustParseAddrPort("10.0.1.99:9999")}
	if c.T.Bias(1, 2, "late-candidate") {
		if k.disc > 0 && k.failed > 0 && c.T.Bias(1, 2, "fail-first") {
			// the peers lose each other until both have failed ...
			total := k.disc + k.failed + 2*k.checkInterval + 2*k.keepalive + time.Second
			for el := time.Duration(0); el < total && !c.Failed(); el += k.checkInterval {
				for _, dg := range d.W.InFlight() {
					d.W.Drop(dg)
				}
				d.S.Advance(k.checkInterval)
			}
			if d.A.LastState() == ice.ConnectionStateFailed {
				c.Probe("failed-before-restart")
			}
		}
		// ... and a late trickled candidate arrives for the generation that is about to end
		for _, s := range sides {
			ap := lateAddr[s]
			cand, err := ice.NewCandidateHost(&ice.CandidateHostConfig{Network: "udp", Address: ap.Addr().String(), Port: int(ap.Port()), Component: 1})
			if err == nil {
				_ = s.ag.A.AddRemoteCandidate(cand)
				stale[s] = ap
			}
		}
		d.S.Settle()
		c.Fault("late-remote-candidate-before-restart")
		refreshKnown()
	}
	for _, s := range sides {
		uf, pw := rig.Creds(s.ag.Name, 1)
		if err := s.ag.A.Restart(uf, pw); err != nil {
			c.Failf("harness/restart", "%v", err)
			return
		}
		s.ag.Ufrag, s.ag.Pwd = uf, pw
		d.S.Settle()
		// nothing of the old generation may carry data any more
		s.selKey = ""
	}
	for _, dg := range d.W.InFlight() {
		d.W.Drop(dg) // old-generation traffic (its data would reach sockets that no longer exist)
	}
	refreshKnown()
	o.check()
	for i := 0; i < 3 && !c.Failed(); i++ {
		o.write() // no validated pair yet: must be refused
	}
	for _, ag := range []*rig.AgentH{d.A, d.B} {
		if err := d.Gather(ag); err != nil {
			c.Failf("harness/gather", "%v", err)
			return
		}
	}
	_ = d.A.A.SetRemoteCredentials(d.B.Ufrag, d.B.Pwd)
	_ = d.B.A.SetRemoteCredentials(d.A.Ufrag, d.A.Pwd)
	for _, cand := range d.A.LocalCands() {
		_ = d.Signal(d.A, d.B, cand)
	}
	for _, cand := range d.B.LocalCands() {
		_ = d.Signal(d.B, d.A, cand)
	}
	n2 := c.T.Range(10, 50, "afterrestart")
	for i := 0; i < n2 && !c.Failed(); i++ {
		refreshKnown()
		d.S.StepFair(k.checkInterval)
		sess.hook("restarted")
		if len(stale) > 0 && i%4 == 3 {
			// data from the address that was a remote candidate of the ended generation only
			for _, s := range sides {
				if s.ag.Conn == nil {
					continue
				}
				locals := s.ag.LocalCands()
				if len(locals) == 0 {
					continue
				}
				dst := rig.CandAP(locals[c.T.Choose(len(locals), "staledst")])
				pl := []byte(fmt.Sprintf("\x40stale-%s-%d", s.ag.Name, i))
				dg := d.W.Inject(stale[s], dst, pl, "data-from-ended-generation")
				_, _ = d.S.Deliver(dg)
				c.Fault("data-inject:remote-of-ended-generation")
			}
			d.S.Settle()
			o.check()
		}
	}
	if !c.Failed() {
		o.final()
	}
}

type c07Oracle struct {
	c     *core.Ctx
	d     *rig.Duo
	sides []*c07Side
	seq   int
}

func (o *c07Oracle) startReaders() {
	for _, s := range o.sides {
		if s.reader || s.ag.Conn == nil {
			continue
		}
		s.reader = true
		s := s
		go func() {
			big := make([]byte, 9000)
			for {
				buf := big
				if k := s.smallNext.Swap(0); k > 0 {
					buf = big[:k]
				}
				n, err := s.ag.Conn.Read(buf)
				s.mu.Lock()
				if errors.Is(err, io.ErrShortBuffer) {
					if s.short == nil {
						s.short = map[int]bool{}
					}
					s.short[len(s.reads)] = true
					err = nil
				}
				if err != nil {
					s.readErr = err
					s.mu.Unlock()
					return
				}
				s.reads = append(s.reads, append([]byte(nil), buf[:n]...))
				g := s.gate
				s.mu.Unlock()
				if g != nil {
					<-g
				}
			}
		}()
	}
}

// check: reader output so far equals the expected prefix; byte counters; selected-pair counters.
func (o *c07Oracle) check() {
	c := o.c
	for _, s := range o.sides {
		if s.ag.Conn == nil {
			continue
		}
		s.mu.Lock()
		reads := s.reads
		short := map[int]bool{}
		for k := range s.short {
			short[k] = true
		}
		s.mu.Unlock()
		if len(reads) > len(s.expect) {
			c.Failf("C07/reader-got-unexpected-packet", "%s reader returned %d packets, only %d delivered datagrams qualify; extra: %q",
				s.ag.Name, len(reads), len(s.expect), trunc(reads[len(s.expect)]))
			return
		}
		var total uint64
		for i, r := range reads {
			total += uint64(len(r))
			if i < s.readChecked {
				continue
			}
			if stun.IsMessage(r) {
				c.Failf("C07/reader-got-stun", "%s reader returned a STUN message", s.ag.Name)
				return
			}
			if short[i] {
				// the buffer was too small: the first bytes of the datagram were returned (and count as returned)
				if len(r) > len(s.expect[i]) || !bytes.Equal(r, s.expect[i][:len(r)]) {
					c.Failf("C07/reader-payload-mismatch", "%s reader packet %d (short buffer) = %q, not a prefix of the delivered datagram %q", s.ag.Name, i, trunc(r), trunc(s.expect[i]))
					return
				}
				c.Probe("short-read")
				continue
			}
			if !bytes.Equal(r, s.expect[i]) {
				c.Failf("C07/reader-payload-mismatch", "%s reader packet %d = %q, delivered datagram was %q (from %v)", s.ag.Name, i, trunc(r), trunc(s.expect[i]), s.expectSrc[i])
				return
			}
		}
		s.readChecked = len(reads)
		if len(reads) < len(s.expect) {
			c.Failf("C07/reader-missed-packet", "%s: %d qualifying datagrams delivered, reader returned only %d (missing %q from %v)",
				s.ag.Name, len(s.expect), len(reads), trunc(s.expect[len(reads)]), s.expectSrc[len(reads)])
			return
		}
		if got := s.ag.Conn.BytesReceived(); got != total {
			c.Failf("C07/bytes-received-counter", "%s BytesReceived=%d, Read returned %d bytes", s.ag.Name, got, total)
			return
		}
		if got := s.ag.Conn.BytesSent(); got != s.sentBytes {
			c.Failf("C07/bytes-sent-counter", "%s BytesSent=%d, Write accepted %d bytes", s.ag.Name, got, s.sentBytes)
			return
		}
		// selected pair counters: deltas since the pair became (or was last seen) selected
		snap := rig.TakeSnap(s.ag)
		if snap.Selected != s.selKey {
			s.selKey = snap.Selected
			s.tallyPS, s.tallyPR, s.tallyBS, s.tallyBR = 0, 0, 0, 0
			for _, p := range snap.Pairs {
				if p.Key() == snap.Selected {
					s.basePS, s.basePR, s.baseBS, s.baseBR = p.PktsSent, p.PktsRecv, p.BytesSent, p.BytesRecv
				}
			}
			if snap.Selected != "" {
				c.Probe("selection-epoch")
			}
			continue
		}
		if snap.Selected == "" {
			continue
		}
		for _, p := range snap.Pairs {
			if p.Key() != snap.Selected {
				continue
			}
			if p.PktsSent-s.basePS != s.tallyPS || p.BytesSent-s.baseBS != s.tallyBS {
				c.Failf("C07/selected-pair-sent-counters", "%s selected pair %s: packets/bytes sent grew by %d/%d, accepted writes %d/%d",
					s.ag.Name, p.Key(), p.PktsSent-s.basePS, p.BytesSent-s.baseBS, s.tallyPS, s.tallyBS)
				return
			}
			if p.PktsRecv-s.basePR != s.tallyPR || p.BytesRecv-s.baseBR != s.tallyBR {
				c.Failf("C07/selected-pair-received-counters", "%s selected pair %s: packets/bytes received grew by %d/%d, reader got %d/%d",
					s.ag.Name, p.Key(), p.PktsRecv-s.basePR, p.BytesRecv-s.baseBR, s.tallyPR, s.tallyBR)
				return
			}
		}
	}
}

func trunc(b []byte) string {
	if len(b) > 24 {
		return fmt.Sprintf("%s...(%d bytes)", b[:24], len(b))
	}
	return string(b)
}

func (o *c07Oracle) payload() ([]byte, bool) {
	c := o.c
	o.seq++
	size := []int{1, 2, 19, 20, 21, 100, 1200, 8192}[c.T.Choose(8, "size")]
	kind := c.T.Pick([]int{5, 2, 1, 1}, "paykind")
	b := make([]byte, size)
	tag := fmt.Sprintf("d%05d:", o.seq)
	for i := range b {
		b[i] = tag[i%len(tag)]
	}
	// first byte >= 0x40 so that the datagram cannot look like STUN (top two bits of STUN are 0)
	b[0] = 0x40 | b[0]
	isStun := false
	if kind == 1 && size >= 20 {
		// a well-formed STUN header: type, length (multiple of 4, matches), magic cookie
		b[0], b[1] = 0x00, 0x01
		l := (size - 20) / 4 * 4
		b = b[:20+l]
		b[2], b[3] = byte(l>>8), byte(l)
		b[4], b[5], b[6], b[7] = 0x21, 0x12, 0xa4, 0x42
		isStun = stun.IsMessage(b)
	} else if kind == 2 {
		b[0] = 0x00 // STUN-like first byte but no magic cookie
		isStun = stun.IsMessage(b)
	} else if kind == 3 && size >= 20 {
		// not a STUN first byte (RTP, DTLS, ...), but the magic cookie sits where a STUN parser looks for it:
		// the peer's classifier takes such a datagram for STUN, so the writer must refuse it as well
		b[0] = []byte{0x80, 0x16, 0x44, 0x04, 0xff}[c.T.Choose(5, "firstbyte")]
		b[4], b[5], b[6], b[7] = 0x21, 0x12, 0xa4, 0x42
		isStun = stun.IsMessage(b)
		o.c.Probe("payload-with-cookie-and-foreign-first-byte")
	}
	return b, isStun
}

func (o *c07Oracle) write() {
	c, d := o.c, o.d
	s := o.sides[c.T.Choose(2, "writer")]
	if s.ag.Conn == nil {
		return
	}
	pre := rig.TakeSnap(s.ag)
	payload, isStun := o.payload()
	before := map[uint64]bool{}
	for _, q := range d.W.InFlight() {
		before[q.ID] = true
	}
	// socket fault: the operating system refuses the send (buffer full, write deadline passed, no route);
	// the write then either fails or reports fewer bytes - the counters follow what Write reported
	sockFault := !isStun && c.T.Bias(1, 8, "sock-write-error")
	var faulted []*simnet.Sock
	if sockFault {
		for _, so := range d.W.Sockets() {
			if so.Host() == s.host && so.Tag != "service" && !so.Closed() {
				d.W.Lock()
				so.WriteErr = errInjected
				d.W.Unlock()
				faulted = append(faulted, so)
			}
		}
		c.Fault("socket-write-error")
	}
	n, err := s.ag.Conn.Write(payload)
	d.S.Settle()
	for _, so := range faulted {
		d.W.Lock()
		so.WriteErr = nil
		d.W.Unlock()
	}
	if sockFault {
		for _, q := range d.W.InFlight() {
			if !before[q.ID] && bytes.Equal(q.Payload, payload) {
				c.Failf("C07/datagram-despite-socket-error", "%s: the socket refused the send, yet the datagram is on the wire", s.ag.Name)
				return
			}
		}
		if n < 0 || n > len(payload) {
			c.Failf("C07/write-count", "%s Write(len %d) returned n=%d", s.ag.Name, len(payload), n)
			return
		}
		// whatever Write reported as accepted is what the counters may show (checked by check())
		s.sentBytes += uint64(n)
		if n > 0 && pre.Selected != "" && s.selKey == pre.Selected {
			s.tallyPS++
			s.tallyBS += uint64(n)
		}
		c.Logf("write %s len=%d with socket error -> n=%d err=%v", s.ag.Name, len(payload), n, err != nil)
		return
	}
	ids := hostSockIDs(d.W, s.host)
	var out []*simnet.Datagram
	for _, q := range d.W.InFlight() {
		if !before[q.ID] && ids[q.SockID] && (!stun.IsMessage(q.Payload) || bytes.Equal(q.Payload, payload)) {
			out = append(out, q)
		}
	}
	c.Logf("write %s len=%d stun=%v -> n=%d err=%v", s.ag.Name, len(payload), isStun, n, err != nil)
	var valid []rig.PairSnap
	for _, p := range pre.Pairs {
		if p.State == ice.CandidatePairStateSucceeded {
			valid = append(valid, p)
		}
	}
	switch {
	case isStun:
		c.Probe("write-stun-like")
		if err == nil || len(out) != 0 {
			c.Failf("C07/stun-payload-accepted", "%s Write of a STUN-parsable payload: n=%d err=%v, %d datagrams emitted", s.ag.Name, n, err, len(out))
		}
		return
	case pre.Selected == "" && len(valid) == 0:
		c.Probe("write-without-valid-pair")
		if err == nil || len(out) != 0 {
			c.Failf("C07/write-without-valid-pair", "%s Write with no validated pair: n=%d err=%v, %d datagrams emitted", s.ag.Name, n, err, len(out))
		}
		return
	}
	if err != nil || n != len(payload) {
		c.Failf("C07/write-refused", "%s Write(len %d) with selected=%q and %d validated pairs: n=%d err=%v", s.ag.Name, len(payload), pre.Selected, len(valid), n, err)
		return
	}
	s.sentBytes += uint64(n)
	if len(out) != 1 {
		c.Failf("C07/write-datagram-count", "%s accepted Write produced %d datagrams", s.ag.Name, len(out))
		return
	}
	q := out[0]
	if !bytes.Equal(q.Payload, payload) {
		c.Failf("C07/write-payload-modified", "%s datagram payload differs from what was written", s.ag.Name)
		return
	}
	got := "udp/" + q.Src.String() + "<->udp/" + q.Dst.String()
	if pre.Selected != "" {
		c.Probe("write-on-selected-pair")
		if got != pre.Selected {
			c.Failf("C07/write-not-on-selected-pair", "%s wrote while %s was selected, datagram went %s", s.ag.Name, pre.Selected, got)
			return
		}
		if s.selKey == pre.Selected {
			s.tallyPS++
			s.tallyBS += uint64(n)
		}
		return
	}
	// before selection: best validated pair by the checker's own ranking (ties: any of the best)
	c.Probe("write-before-selection")
	controlling := s.ag == d.A
	prio := func(p rig.PairSnap) uint64 {
		var lp, rp uint32
		for _, cs := range pre.Locals {
			if cs.Addr == p.Local {
				lp = cs.Priority
			}
		}
		for _, cs := range pre.Remotes {
			if cs.Addr == p.Remote {
				rp = cs.Priority
			}
		}
		if controlling {
			return rig.PairPriority(lp, rp)
		}
		return rig.PairPriority(rp, lp)
	}
	var best uint64
	for _, p := range valid {
		if v := prio(p); v > best {
			best = v
		}
	}
	okPair := false
	for _, p := range valid {
		if p.Key() == got {
			okPair = true
			if prio(p) != best {
				c.Failf("C07/write-not-on-best-valid-pair", "%s wrote before selection over %s (priority %d) although a validated pair of priority %d exists", s.ag.Name, got, prio(p), best)
				return
			}
		}
	}
	if !okPair {
		c.Failf("C07/write-on-unvalidated-pair", "%s wrote before selection over %s which is not a validated pair (validated: %v)", s.ag.Name, got, valid)
	}
}

// injectData: a non-STUN datagram towards one agent from a selected / known / other-transport / unknown source.
func (o *c07Oracle) injectData() {
	c, d := o.c, o.d
	s := o.sides[c.T.Choose(2, "datatarget")]
	if s.ag.Conn == nil {
		return
	}
	locals := s.ag.LocalCands()
	if len(locals) == 0 {
		return
	}
	dst := rig.CandAP(locals[c.T.Choose(len(locals), "dst")])
	var src netip.AddrPort
	kind := ""
	switch c.T.Pick([]int{3, 3, 2, 2, 3}, "datasrc") {
	case 4:
		// a transport address of the peer that this agent has not learnt yet (trickle is still under way, or the
		// candidate is held back): unknown now - once it is signalled or discovered, data from it is accepted
		known := map[netip.AddrPort]bool{}
		for _, rc := range s.ag.RemoteCands() {
			known[rig.CandAP(rc)] = true
		}
		var early []netip.AddrPort
		for _, pc := range s.peer.ag.LocalCands() {
			if ap := rig.CandAP(pc); pc.NetworkType().IsUDP() && !known[ap] {
				early = append(early, ap)
			}
		}
		if len(early) > 0 {
			src, kind = early[c.T.Choose(len(early), "which")], "peer-address-not-yet-known"
			break
		}
		fallthrough
	case 0:
		if _, r, ok := s.ag.SelectedPair(); ok {
			src, kind = r, "selected-remote"
			break
		}
		fallthrough
	case 1:
		var udp []netip.AddrPort
		for _, rc := range s.ag.RemoteCands() {
			if rc.NetworkType().IsUDP() {
				udp = append(udp, rig.CandAP(rc))
			}
		}
		if len(udp) > 0 {
			src, kind = udp[c.T.Choose(len(udp), "which")], "known-remote"
			break
		}
		fallthrough
	case 2:
		src, kind = netip.MustParseAddrPort("10.0.9.9:4000"), "known-only-on-tcp"
	default:
		src, kind = netip.AddrPortFrom(netip.MustParseAddr("192.0.2.99"), uint16(43000+c.T.Choose(2, "p"))), "unknown"
	}
	if c.T.Bias(1, 6, "small-read-buffer") {
		// the application's next Read passes a buffer that may be too small for what arrives
		s.smallNext.Store(int32([]int{1, 2, 16}[c.T.Choose(3, "smallbuf")]))
	}
	payload, isStun := o.payload()
	if isStun {
		// a datagram the classifier takes for STUN (magic cookie in place) whose body is not a decodable STUN
		// message - an RTP packet whose timestamp happens to equal the cookie, or plain junk: whatever the
		// agent does with it, the reader never yields it (sent from a known source, it would otherwise pass
		// the source check)
		kind += "/stun-like"
		c.Probe("inbound-stun-like-junk")
	}
	dg := d.W.Inject(src, dst, payload, "data "+kind)
	c.Fault("data-inject:" + kind)
	c.Logf("data inject %s %s -> %s len=%d", kind, src, dst, len(payload))
	d.S.Deliver(dg)
}

// flood: the application stops reading while the peer's selected address sends more than the agent buffers (a
// stalled reader is the application's doing; what the agent sheds is lost like any datagram on a full socket
// buffer). What the reader gets afterwards is a subsequence of what arrived - in order, unmodified, nothing
// twice - and the byte counter and the selected pair's receive counters still equal what Read returned: a
// datagram that was shed was never received.
func (o *c07Oracle) flood() {
	c, d := o.c, o.d
	s := o.sides[c.T.Choose(2, "floodtarget")]
	if s.ag.Conn == nil || s.flooded || !s.reader {
		return
	}
	l, r, ok := s.ag.SelectedPair()
	if !ok || !o.knownUDP(s, r) {
		return
	}
	s.flooded = true
	gate := make(chan struct{})
	s.mu.Lock()
	s.gate = gate
	s.mu.Unlock()
	first := len(s.expect)
	n := 132 + c.T.Choose(24, "floodn")
	for i := 0; i < n; i++ {
		pl := make([]byte, 8192)
		tag := fmt.Sprintf("\x40flood-%s-%04d:", s.ag.Name, i)
		for j := range pl {
			pl[j] = tag[j%len(tag)]
		}
		d.S.Deliver(d.W.Inject(r, l, pl, "flood"))
	}
	c.Fault("reader-stalled-during-flood")
	d.S.Settle()
	s.mu.Lock()
	s.gate = nil
	s.mu.Unlock()
	close(gate)
	d.S.Settle()
	// reconcile: the reads from `first` on must be a subsequence of what arrived
	s.mu.Lock()
	reads := append([][]byte(nil), s.reads...)
	shortReads := map[int]bool{}
	for k := range s.short {
		shortReads[k] = true
	}
	s.mu.Unlock()
	var keep [][]byte
	var keepSrc []netip.AddrPort
	j := first
	shed := 0
	for i := first; i < len(reads); i++ {
		for j < len(s.expect) && !bytes.Equal(s.expect[j], reads[i]) && !(shortReads[i] && bytes.HasPrefix(s.expect[j], reads[i])) {
			if !bytes.HasPrefix(s.expect[j], []byte("\x40flood-")) {
				c.Failf("C07/reader-missed-packet", "%s: while its reader was stalled by a flood an ordinary datagram (%q) was lost or overtaken", s.ag.Name, trunc(s.expect[j]))
				return
			}
			if s.selKey != "" {
				s.tallyPR--
				s.tallyBR -= uint64(len(s.expect[j]))
			}
			shed++
			j++
		}
		if j >= len(s.expect) {
			c.Failf("C07/reader-got-unexpected-packet", "%s: after the flood the reader returned %q, which is not among the datagrams that arrived after the previous one it returned (order changed, duplicate, or fabricated)", s.ag.Name, trunc(reads[i]))
			return
		}
		keep, keepSrc = append(keep, s.expect[j]), append(keepSrc, s.expectSrc[j])
		j++
	}
	for ; j < len(s.expect); j++ {
		if !bytes.HasPrefix(s.expect[j], []byte("\x40flood-")) {
			c.Failf("C07/reader-missed-packet", "%s: an ordinary datagram (%q) that arrived during the flood never reached the reader", s.ag.Name, trunc(s.expect[j]))
			return
		}
		if s.selKey != "" {
			s.tallyPR--
			s.tallyBR -= uint64(len(s.expect[j]))
		}
		shed++
	}
	s.expect = append(s.expect[:first], keep...)
	s.expectSrc = append(s.expectSrc[:first], keepSrc...)
	if shed > 0 {
		c.Probe("receive-buffer-overflowed")
	}
	c.Logf("flood %s: %d datagrams, %d shed", s.ag.Name, n, shed)
}

func (o *c07Oracle) knownUDP(s *c07Side, ap netip.AddrPort) bool {
	for _, rc := range s.ag.RemoteCands() {
		if rc.NetworkType().IsUDP() && rig.CandAP(rc) == ap {
			return true
		}
	}
	return false
}

func (o *c07Oracle) tcpRemote() {
	c, d := o.c, o.d
	to := o.sides[c.T.Choose(2, "to")].ag
	cand, err := ice.NewCandidateHost(&ice.CandidateHostConfig{Network: "tcp", Address: "10.0.9.9", Port: 4000, Component: 1, TCPType: ice.TCPTypePassive})
	if err != nil {
		return
	}
	_ = to.A.AddRemoteCandidate(cand)
	d.S.Settle()
	c.Probe("tcp-remote-signalled")
}

func (o *c07Oracle) final() {
	o.check()
	for _, s := range o.sides {
		if len(s.expect) > 0 {
			o.c.Probe("reader-received-data")
		}
	}
}
