package checks

import (
	"time"

	"testing/synctest"

	"github.com/pion/ice/v4"
	"github.com/pion/stun/v3"

	"verif/sim/core"
	"verif/sim/rig"
	"verif/sim/simnet"
)

// runC03RenominateRace: "a controlled agent never sends USE-CANDIDATE" across a role switch that is
// queued in front of an application-requested renomination.
//
// The controlling agent A (renomination enabled) is connected; its loop goroutine is parked inside a task
// (a check blocked in a simulated socket write). In tape order (a) an authentic Binding request carrying
// ICE-CONTROLLING with a larger tie-breaker arrives - A must lose the conflict and become controlled - and
// (b) the application calls RenominateCandidate. Both wait for the loop. When the loop is released they run
// in the order in which they were queued. If the conflict was queued first, A is controlled by the time the
// renomination runs: nothing carrying USE-CANDIDATE or a nomination value may leave A. (In the other order
// the renomination is legitimate.)
func runC03RenominateRace(c *core.Ctx) {
	ci := 100 * time.Millisecond
	opts := func() []ice.AgentOption {
		return []ice.AgentOption{ice.WithCheckInterval(ci), ice.WithKeepaliveInterval(300 * time.Millisecond),
			ice.WithCandidateTypes([]ice.CandidateType{ice.CandidateTypeHost}),
			ice.WithMaxBindingRequests(100), ice.WithRenomination(ice.DefaultNominationValueGenerator())}
	}
	nA := c.T.Range(1, 2, "nA")
	d, err := rig.NewDuo(c, rig.DuoCfg{AddrsA: c01Addrs("10.0.1", nA), AddrsB: []string{"10.0.2.10"}, OptsA: opts(), OptsB: opts()})
	if err != nil {
		c.Failf("harness/setup", "%v", err)
		return
	}
	c.Knob("part", "renominate-vs-role-switch")
	A, B := d.A, d.B
	for _, ag := range []*rig.AgentH{A, B} {
		if err := d.Gather(ag); err != nil {
			c.Failf("harness/gather", "%v", err)
			return
		}
	}
	if err := ice.VerifSetTieBreaker(A.A, 5); err != nil {
		c.Failf("harness/tiebreaker", "%v", err)
		return
	}
	for _, cand := range A.LocalCands() {
		_ = d.Signal(A, B, cand)
	}
	for _, cand := range B.LocalCands() {
		_ = d.Signal(B, A, cand)
	}
	d.S.Settle()
	A.Conn, _ = A.A.StartDial(B.Ufrag, B.Pwd)
	B.Conn, _ = B.A.StartAccept(A.Ufrag, A.Pwd)
	d.S.Settle()
	for i := 0; i < 200 && !(A.LastState() == ice.ConnectionStateConnected && B.LastState() == ice.ConnectionStateConnected); i++ {
		d.S.StepFair(ci / 2)
	}
	if A.LastState() != ice.ConnectionStateConnected {
		c.Probe("renom-race-not-connected")
		return
	}
	locals, remotes := A.LocalCands(), A.RemoteCands()
	if len(locals) == 0 || len(remotes) == 0 {
		return
	}
	lc := locals[c.T.Choose(len(locals), "lc")]
	rc := remotes[0]
	// drain what is in flight, then park A's loop in a blocked write
	for _, dg := range d.W.InFlight() {
		d.W.Drop(dg)
	}
	var socks []*simnet.Sock
	for _, s := range d.W.Sockets() {
		if s.Host() == d.HA && s.Tag != "service" && !s.Closed() {
			socks = append(socks, s)
		}
	}
	for _, s := range socks {
		s.SetBlockWrites(true)
	}
	blocked := func() int {
		n := 0
		for _, s := range socks {
			n += s.Blocked()
		}
		return n
	}
	for i := 0; i < 30 && blocked() == 0; i++ {
		time.Sleep(ci)
		synctest.Wait()
	}
	if blocked() == 0 {
		c.Probe("loop-not-parked")
		for _, s := range socks {
			s.SetBlockWrites(false)
		}
		return
	}
	c.Fault("loop-parked-in-write")
	// B must not take part any more (its own checks would start a real conflict resolution later)
	for _, dg := range d.W.InFlight() {
		d.W.Drop(dg)
	}
	conflictFirst := c.T.Bias(1, 2, "conflict-first")
	c.Knob("conflictFirst", conflictFirst)
	theirs := ^uint64(0)
	spec := rig.MsgSpec{Method: stun.MethodBinding, Class: stun.ClassRequest, Seq: 77,
		Username: rig.Str(A.Ufrag + ":" + B.Ufrag), Key: A.Pwd, Priority: rig.U32(2130706431), Controlling: &theirs}
	src := rig.CandAP(B.LocalCands()[0])
	dst := rig.CandAP(lc)
	conflict := func() {
		dg := d.W.Inject(src, dst, spec.Build(), "role-conflict")
		d.W.Deliver(dg)
		synctest.Wait()
		c.Fault("conflict-queued-behind-parked-loop")
	}
	done := make(chan error, 1)
	renominate := func() {
		go func() { done <- A.A.RenominateCandidate(lc, rc) }()
		synctest.Wait()
	}
	if conflictFirst {
		conflict()
		renominate()
	} else {
		renominate()
		conflict()
	}
	d.W.Lock()
	wire0 := len(d.Wire)
	d.W.Unlock()
	for _, s := range socks {
		s.SetBlockWrites(false)
	}
	synctest.Wait()
	select {
	case <-done:
	default:
		c.Failf("C03/renominate-never-returns", "RenominateCandidate did not return after the loop was released")
		return
	}
	// what A put on the wire once the loop ran again (no datagram was delivered, no time has passed)
	d.W.Lock()
	wire := append([]*rig.WireEv(nil), d.Wire[wire0:]...)
	d.W.Unlock()
	ids := hostSockIDs(d.W, d.HA)
	for _, w := range wire {
		if !ids[w.D.SockID] || w.D.Dup {
			continue
		}
		m := w.Msg()
		if !m.IsSTUN || m.Class != stun.ClassRequest || m.Method != stun.MethodBinding {
			continue
		}
		if (m.UseCandidate || m.Nomination != nil) && conflictFirst {
			c.Failf("C03/controlled-sent-use-candidate", "A lost a role conflict (tie-breaker 5 against %#x) that was queued before the application's RenominateCandidate, yet it then sent %s", theirs, d.Tx.Describe(w.D))
			return
		}
		if m.UseCandidate || m.Nomination != nil {
			c.Probe("renomination-before-role-switch")
		}
	}
	if conflictFirst {
		c.Probe("role-switch-before-renomination")
	}
	// Either way A has lost the conflict by now and is the controlled agent. A few check ticks pass with every
	// datagram lost (so the renomination, if it went out, stays unanswered): nothing A sends from here on
	// carries USE-CANDIDATE or a nomination value - an unanswered renomination does not outlive the role
	d.W.Lock()
	wire1 := len(d.Wire)
	d.W.Unlock()
	for i := 0; i < 5; i++ {
		for _, dg := range d.W.InFlight() {
			d.W.Drop(dg)
		}
		d.S.Advance(ci)
	}
	d.W.Lock()
	later := append([]*rig.WireEv(nil), d.Wire[wire1:]...)
	d.W.Unlock()
	for _, w := range later {
		if !ids[w.D.SockID] || w.D.Dup {
			continue
		}
		m := w.Msg()
		if m.IsSTUN && m.Class == stun.ClassRequest && m.Method == stun.MethodBinding && (m.UseCandidate || m.Nomination != nil) {
			c.Failf("C03/controlled-sent-use-candidate", "A lost a role conflict (tie-breaker 5 against %#x) and is controlled; %v later it still sent %s (conflict queued first: %v)", theirs, c.Now(), d.Tx.Describe(w.D), conflictFirst)
			return
		}
	}
	c.Probe("no-nomination-after-role-switch")
	for _, dg := range d.W.InFlight() {
		d.W.Drop(dg)
	}
}
