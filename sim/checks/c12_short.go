package checks

import (
	"errors"
	"fmt"
	"io"
	"net"
	"net/netip"
	"testing/synctest"
	"time"

	"github.com/pion/ice/v4"

	"verif/sim/core"
	"verif/sim/rig"
	"verif/sim/simnet"
)

// runC12ShortRead: a reader that now and then passes a buffer too small for the datagram at the head of its
// queue (legal for a net.PacketConn: the read fails with io.ErrShortBuffer, what becomes of that datagram is
// the reader's loss). Everything the reader does get is still in arrival order, byte-identical, with the true
// source, and nothing twice - also when more datagrams were queued behind the one that did not fit, or arrive
// before the next read.
func runC12ShortRead(c *core.Ctx) {
	t := c.T
	c.Knob("part", "short-reads")
	c.MarkNontrivial()
	w := simnet.NewWorld()
	host := w.SimpleHost("muxhost", "10.0.0.1")
	host.AddrPortConns = t.Bias(1, 2, "addrport")
	local := netip.MustParseAddrPort("10.0.0.1:5000")
	pc, err := host.Net().ListenUDP("udp4", net.UDPAddrFromAddrPort(local))
	if err != nil {
		c.Failf("harness/listen", "%v", err)
		return
	}
	mux := ice.NewUDPMuxDefault(ice.UDPMuxParams{Logger: rig.Quiet().NewLogger("c12s"), UDPConn: pc, Net: host.Net()})
	conn, err := mux.GetConn("ufa", net.UDPAddrFromAddrPort(local))
	if err != nil {
		c.Failf("harness/getconn", "%v", err)
		return
	}
	c.Defer(func() { _ = conn.Close(); _ = mux.Close(); synctest.Wait() })
	peer := netip.MustParseAddrPort("192.0.2.1:1000")
	if _, err := conn.WriteTo([]byte("out"), net.UDPAddrFromAddrPort(peer)); err != nil {
		c.Failf("harness/write", "%v", err)
		return
	}
	synctest.Wait()
	for _, d := range w.InFlight() {
		w.Drop(d)
	}
	arrived := 0
	send := func() {
		arrived++
		pl := []byte(fmt.Sprintf("dgram-%04d-%s", arrived, "xxxxxxxxxxxxxxxxxxxxxxxx"[:t.Choose(24, "len")]))
		w.Deliver(w.Inject(peer, local, pl, "c12s"))
		synctest.Wait()
	}
	last := 0
	var order []int
	read := func(size int) {
		buf := make([]byte, size)
		_ = conn.SetReadDeadline(time.Now().Add(50 * time.Millisecond))
		n, from, err := conn.ReadFrom(buf)
		switch {
		case errors.Is(err, io.ErrShortBuffer):
			c.Probe("short-read-refused")
			return
		case err != nil:
			return // nothing queued: the deadline ended the read
		}
		var idx int
		if _, serr := fmt.Sscanf(string(buf[:n]), "dgram-%04d-", &idx); serr != nil || idx < 1 || idx > arrived {
			c.Failf("C12/payload-not-identical", "ReadFrom(buffer %d) returned %d bytes %q that match no datagram sent to the connection", size, n, trunc(buf[:n]))
			return
		}
		if ua, ok := from.(*net.UDPAddr); !ok || ua.AddrPort() != peer {
			c.Failf("C12/wrong-source-address", "datagram #%d came from %v, the reader was told %v", idx, peer, from)
			return
		}
		order = append(order, idx)
		if idx <= last {
			c.Failf("C12/reordered", "the reader got datagram #%d after #%d (arrival order is the numbering; a read with a buffer too small for the head of the queue had failed in between); reads so far: %v", idx, last, order)
			return
		}
		last = idx
	}
	steps := t.Range(6, 24, "steps")
	for i := 0; i < steps && !c.Failed(); i++ {
		switch t.Pick([]int{4, 3, 2}, "op") {
		case 0:
			send()
		case 1:
			read(2048)
		case 2:
			read([]int{0, 1, 8}[t.Choose(3, "small")])
		}
	}
	for i := 0; i < arrived+2 && !c.Failed(); i++ {
		read(2048)
	}
	if c.Failed() || !t.Bias(1, 2, "unread-backlog-at-close") {
		return
	}
	// the connection is released with datagrams still unread (nobody will ever read them); another ufrag's
	// connection on the same mux then receives one datagram of its own - and nothing else: what was queued for
	// the released connection is gone, whatever the mux recycles
	for i := 0; i < 3; i++ {
		send()
	}
	connB, err := mux.GetConn("ufab", net.UDPAddrFromAddrPort(local))
	if err != nil {
		c.Failf("harness/getconn", "%v", err)
		return
	}
	c.Defer(func() { _ = connB.Close() })
	peerB := netip.MustParseAddrPort("192.0.2.2:2000")
	if _, err := connB.WriteTo([]byte("out"), net.UDPAddrFromAddrPort(peerB)); err != nil {
		c.Failf("harness/write", "%v", err)
		return
	}
	synctest.Wait()
	for _, d := range w.InFlight() {
		w.Drop(d)
	}
	switch t.Choose(2, "release") {
	case 0:
		_ = conn.Close()
	default:
		mux.RemoveConnByUfrag("ufa")
	}
	synctest.Wait()
	c.Fault("connection-released-with-unread-datagrams")
	w.Deliver(w.Inject(peerB, local, []byte("for-B-only"), "c12s"))
	synctest.Wait()
	for i := 0; i < 5; i++ {
		buf := make([]byte, 2048)
		_ = connB.SetReadDeadline(time.Now().Add(50 * time.Millisecond))
		n, from, err := connB.ReadFrom(buf)
		if err != nil {
			if i == 0 {
				c.Failf("C12/expected-delivery-missing", "the connection of ufab did not receive the datagram its peer sent: %v", err)
			}
			break
		}
		ua, _ := from.(*net.UDPAddr)
		if i > 0 || string(buf[:n]) != "for-B-only" || ua == nil || ua.AddrPort() != peerB {
			c.Failf("C12/delivered-to-wrong-connection", "the connection of ufab read %q from %v (read #%d): its peer %v sent exactly one datagram, \"for-B-only\"; the rest was queued for the released connection of ufa", trunc(buf[:n]), from, i+1, peerB)
			return
		}
	}
	c.Probe("released-backlog-gone")
}

var _ = core.Register
