package tape

// Minimize shrinks a failing tape while fails(candidate) keeps returning true
// (same violation class). ddmin-style: truncate, delete chunks, zero chunks,
// lower single values. budget bounds the number of re-executions.
func Minimize(vals []uint32, budget int, fails func([]uint32) bool) ([]uint32, int) {
	cur := append([]uint32(nil), vals...)
	execs := 0
	try := func(c []uint32) bool {
		if execs >= budget {
			return false
		}
		execs++
		return fails(c)
	}
	trim := func(c []uint32) []uint32 {
		for len(c) > 0 && c[len(c)-1] == 0 {
			c = c[:len(c)-1]
		}
		return c
	}
	cur = trim(cur)

	// 1. truncate by bisection on length
	lo, hi := 0, len(cur)
	for lo < hi && execs < budget {
		mid := (lo + hi) / 2
		if try(cur[:mid]) {
			hi = mid
		} else {
			lo = mid + 1
		}
	}
	if hi < len(cur) && try(cur[:hi]) {
		cur = trim(append([]uint32(nil), cur[:hi]...))
	}

	changed := true
	for changed && execs < budget {
		changed = false
		// 2. delete chunks
		for size := len(cur) / 2; size >= 1 && execs < budget; size /= 2 {
			for i := 0; i+size <= len(cur) && execs < budget; {
				c := append(append([]uint32(nil), cur[:i]...), cur[i+size:]...)
				if try(c) {
					cur = trim(c)
					changed = true
				} else {
					i += size
				}
			}
		}
		// 3. zero chunks
		for size := len(cur) / 2; size >= 1 && execs < budget; size /= 2 {
			for i := 0; i+size <= len(cur) && execs < budget; i += size {
				allZero := true
				for _, v := range cur[i : i+size] {
					if v != 0 {
						allZero = false
						break
					}
				}
				if allZero {
					continue
				}
				c := append([]uint32(nil), cur...)
				for j := i; j < i+size; j++ {
					c[j] = 0
				}
				if try(c) {
					cur = trim(c)
					changed = true
				}
			}
		}
		// 4. lower single values
		for i := 0; i < len(cur) && execs < budget; i++ {
			if cur[i] == 0 {
				continue
			}
			for _, nv := range []uint32{0, cur[i] / 2, cur[i] - 1} {
				if nv >= cur[i] {
					continue
				}
				c := append([]uint32(nil), cur...)
				c[i] = nv
				if try(c) {
					cur = trim(c)
					changed = true
					break
				}
			}
		}
	}
	return cur, execs
}
