// Package tape is the single source of choice of the simulator: one PRNG,
// seeded from VERIF_SEED, consumed only through Choose; every consumed value is
// recorded so that a run can be replayed and minimised.
//
// Convention: value 0 is always the benign default, so an all-zero (or
// truncated) tape is the happy path and "smaller tape = simpler run".
package tape

import (
	"hash/fnv"
	"math/rand/v2"
	"sync"
)

// Tape hands out choices and records them.
type Tape struct {
	mu         sync.Mutex // protects rec against the watchdog's snapshot
	rng        *rand.Rand
	replay     []uint32
	replayMode bool
	pos        int
	rec        []uint32
	labels     []string
	keepLabels bool
	// Exhausted counts draws that ran past the end of a replayed tape (default 0 used).
	Exhausted int
}

// Seed derives the PCG seed words for (seed, check id, run index).
func Seed(seed int64, check string, run int) (uint64, uint64) {
	h := fnv.New64a()
	_, _ = h.Write([]byte(check))
	return uint64(seed)*0x9e3779b97f4a7c15 ^ h.Sum64(), uint64(run)*0xbf58476d1ce4e5b9 + 0x94d049bb133111eb
}

// New returns a generating tape.
func New(seed int64, check string, run int) *Tape {
	a, b := Seed(seed, check, run)
	return &Tape{rng: rand.New(rand.NewPCG(a, b))}
}

// Replay returns a tape that replays the given values; past the end every
// choice is 0 (the benign default).
func Replay(vals []uint32) *Tape {
	return &Tape{replay: vals, replayMode: true}
}

// KeepLabels makes the tape remember the label of every draw (for traces).
func (t *Tape) KeepLabels() { t.keepLabels = true }

// Choose returns a value in [0,n). n<=1 returns 0 and is still recorded, so that
// the tape layout does not depend on how many options were enabled.
func (t *Tape) Choose(n int, label string) int {
	var v uint32
	if t.replayMode {
		if t.pos < len(t.replay) {
			v = t.replay[t.pos]
		} else {
			t.Exhausted++
		}
		t.pos++
		if n <= 1 {
			v = 0
		} else {
			v %= uint32(n)
		}
	} else if n > 1 {
		v = uint32(t.rng.IntN(n))
	}
	t.mu.Lock()
	t.rec = append(t.rec, v)
	t.mu.Unlock()
	if t.keepLabels {
		t.labels = append(t.labels, label)
	}
	return int(v)
}

// Bias returns true with probability num/den; false (0) is the default.
func (t *Tape) Bias(num, den int, label string) bool {
	if num <= 0 {
		t.Choose(1, label)
		return false
	}
	// value 0..den-1; the fault fires on the top `num` values so that 0 is benign
	return t.Choose(den, label) >= den-num
}

// Pick chooses an index with weights; index 0 should be the benign default.
func (t *Tape) Pick(weights []int, label string) int {
	total := 0
	for _, w := range weights {
		total += w
	}
	if total <= 0 {
		t.Choose(1, label)
		return 0
	}
	v := t.Choose(total, label)
	for i, w := range weights {
		if v < w {
			return i
		}
		v -= w
	}
	return len(weights) - 1
}

// Range returns lo + Choose(hi-lo+1).
func (t *Tape) Range(lo, hi int, label string) int {
	if hi < lo {
		hi = lo
	}
	return lo + t.Choose(hi-lo+1, label)
}

// Bytes returns n tape-derived bytes.
func (t *Tape) Bytes(n int, label string) []byte {
	b := make([]byte, n)
	for i := 0; i < n; i += 3 {
		v := t.Choose(1<<24, label)
		for j := 0; j < 3 && i+j < n; j++ {
			b[i+j] = byte(v >> (8 * j))
		}
	}
	return b
}

// Recorded returns the values consumed so far.
func (t *Tape) Recorded() []uint32 {
	t.mu.Lock()
	defer t.mu.Unlock()
	return append([]uint32(nil), t.rec...)
}

// Labels returns the labels of the draws (only with KeepLabels).
func (t *Tape) Labels() []string { return t.labels }

// Len returns the number of draws so far.
func (t *Tape) Len() int { return len(t.rec) }

// Sub is a view of a tape whose values come from an independently seeded PRNG (so that several runs
// can share the same "base" choices) but are recorded on, and replayed from, the parent tape.
type Sub struct {
	parent *Tape
	rng    *rand.Rand
}

// Sub derives a view seeded by (seed, name, idx).
func (t *Tape) Sub(seed int64, name string, idx int) *Sub {
	a, b := Seed(seed, name, idx)
	return &Sub{parent: t, rng: rand.New(rand.NewPCG(a, b))}
}

// Choose draws from the derived PRNG (generating parent) or from the parent's replay values.
func (s *Sub) Choose(n int, label string) int {
	var v uint32
	if n > 1 {
		v = uint32(s.rng.IntN(n))
	}
	return s.parent.force(v, n, label)
}

// Bias is Tape.Bias on the view.
func (s *Sub) Bias(num, den int, label string) bool {
	if num <= 0 {
		s.Choose(1, label)
		return false
	}
	return s.Choose(den, label) >= den-num
}

// Range is Tape.Range on the view.
func (s *Sub) Range(lo, hi int, label string) int {
	if hi < lo {
		hi = lo
	}
	return lo + s.Choose(hi-lo+1, label)
}

// Pick is Tape.Pick on the view.
func (s *Sub) Pick(weights []int, label string) int {
	total := 0
	for _, w := range weights {
		total += w
	}
	if total <= 0 {
		s.Choose(1, label)
		return 0
	}
	v := s.Choose(total, label)
	for i, w := range weights {
		if v < w {
			return i
		}
		v -= w
	}
	return len(weights) - 1
}

// force records v (generating) or returns the replayed value (replaying).
func (t *Tape) force(v uint32, n int, label string) int {
	if t.replayMode {
		return t.Choose(n, label)
	}
	if n <= 1 {
		v = 0
	}
	t.mu.Lock()
	t.rec = append(t.rec, v)
	t.mu.Unlock()
	if t.keepLabels {
		t.labels = append(t.labels, label)
	}
	return int(v)
}
