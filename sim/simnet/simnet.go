// Package simnet is the only network the system under test sees: simulated
// hosts, interfaces, UDP sockets, an in-flight datagram pool owned by the
// simulator, NAT boxes, a reachability relation, and a socket ledger.
//
// Nothing here draws random numbers or reads a real clock: every delivery,
// drop, duplicate and fault is decided by the caller (the step loop) from the
// choice tape. All blocking is on channels/timers created inside the synctest
// bubble, so blocked callers are "durably blocked".
package simnet

import (
	"errors"
	"fmt"
	"io"
	"net"
	"net/netip"
	"os"
	"sort"
	"sync"
	"syscall"
	"time"

	"github.com/pion/transport/v4"

	"verif/sim/simstream"
)

// Datagram is one UDP datagram in flight.
type Datagram struct {
	ID      uint64
	SockID  int    // sending socket (-1 for injected)
	Seq     uint64 // per-socket sequence
	Src     netip.AddrPort
	Dst     netip.AddrPort
	Payload []byte
	SentAt  time.Time
	Dup     bool
	Note    string // set by injectors ("forged", ...)
}

// World owns hosts, sockets and the in-flight pool.
type World struct {
	mu      sync.Mutex
	hosts   []*Host
	socks   []*Sock
	pool    []*Datagram
	nextID  uint64
	parked  []*Park
	parkSeq uint64

	// BlockWritesTo: a write to one of these destinations blocks (like Sock.BlockWrites) until the socket is closed
	// or its write deadline passes - whichever socket it is written from, also sockets opened later.
	BlockWritesTo map[netip.AddrPort]bool
	// Reach reports whether a datagram from src (post-NAT) may reach dst. nil = all reachable.
	Reach func(src, dst netip.AddrPort) bool
	// OnSend is called (with the world lock held; must not call back) for every datagram entering the pool.
	OnSend func(d *Datagram)
	// OnDeliver is called (lock held) when a datagram is handed to a socket.
	OnDeliver func(d *Datagram, to *Sock)
	// ParkListens makes ListenUDP/ListenPacket park until the simulator releases them (canonical order).
	ParkListens bool
	// TCPServers are the addresses that accept simulated outgoing TCP connections; TCPConns the connections made.
	TCPServers []netip.AddrPort
	TCPConns   []*TCPConn

	Stats Stats
}

// Stats counts what actually happened on the network.
type Stats struct {
	Sent, Delivered, Dropped, Duplicated, NoRoute, Unreachable, NATFiltered int
	Listens, ListenErrors, Closes, RedundantCloses                          int
	BlockedWrites, WriteDeadlineHits, WriteErrors                           int
}

// NewWorld creates an empty world.
func NewWorld() *World { return &World{} }

// IfaceSpec describes one simulated interface.
type IfaceSpec struct {
	Name  string
	Flags net.Flags
	Addrs []netip.Prefix
}

// Host is a simulated machine with interfaces and a port allocator.
type Host struct {
	w      *World
	Name   string
	Ifaces []IfaceSpec
	// NAT, when non-nil, translates all traffic leaving/entering this host.
	NAT *NAT
	// ListenFault, when non-nil, is consulted for every listen; a non-nil error fails it.
	ListenFault func(network string, laddr netip.AddrPort) error
	// AddrPortConns makes sockets implement ice.AddrPortReaderWriter.
	AddrPortConns bool
	// MappedV4Sources makes the host's sockets report IPv4 sources in their IPv4-in-IPv6 form (a 16-byte IP
	// in *net.UDPAddr, ::ffff:a.b.c.d as netip.Addr), as dual-stack sockets and some wrappers do.
	MappedV4Sources bool
	// ResolveFault fails ResolveUDPAddr when set.
	ResolveFault error
	// Alias is an external 1:1 address: traffic addressed to it reaches sockets bound to the
	// unspecified address, and those sockets send with it as source. It is not on any interface.
	Alias netip.Addr

	// FailedListens records the requested address of every listen that failed (any reason).
	FailedListens []netip.AddrPort

	nextPort map[netip.Addr]int
	bound    map[netip.AddrPort]*Sock
}

// AddHost adds a host. Interfaces with zero Flags get Up|Broadcast|Multicast.
func (w *World) AddHost(name string, ifaces ...IfaceSpec) *Host {
	h := &Host{w: w, Name: name, nextPort: map[netip.Addr]int{}, bound: map[netip.AddrPort]*Sock{}}
	for _, i := range ifaces {
		if i.Flags == 0 {
			i.Flags = net.FlagUp | net.FlagBroadcast | net.FlagMulticast
		}
		h.Ifaces = append(h.Ifaces, i)
	}
	w.mu.Lock()
	w.hosts = append(w.hosts, h)
	w.mu.Unlock()
	return h
}

// SimpleHost adds a host with one interface per address (eth0, eth1, ...).
func (w *World) SimpleHost(name string, addrs ...string) *Host {
	var ifs []IfaceSpec
	for i, a := range addrs {
		ip := netip.MustParseAddr(a)
		bits := 24
		if ip.Is6() {
			bits = 64
		}
		ifs = append(ifs, IfaceSpec{Name: fmt.Sprintf("eth%d", i), Addrs: []netip.Prefix{netip.PrefixFrom(ip, bits)}})
	}
	return w.AddHost(name, ifs...)
}

// IPs returns all addresses configured on up interfaces.
func (h *Host) IPs() []netip.Addr {
	var out []netip.Addr
	for _, i := range h.Ifaces {
		for _, p := range i.Addrs {
			out = append(out, p.Addr())
		}
	}
	return out
}

// Owns reports whether traffic addressed to ip is routed to this host.
func (h *Host) Owns(ip netip.Addr) bool {
	return h.hasIP(ip) || (h.Alias.IsValid() && h.Alias == ip) || (h.NAT != nil && h.NAT.Public == ip)
}

func (h *Host) hasIP(ip netip.Addr) bool {
	for _, a := range h.IPs() {
		if a == ip {
			return true
		}
	}
	return false
}

func (h *Host) primaryIP(v6 bool) netip.Addr {
	for _, i := range h.Ifaces {
		if i.Flags&net.FlagUp == 0 || i.Flags&net.FlagLoopback != 0 {
			continue
		}
		for _, p := range i.Addrs {
			if p.Addr().Is6() == v6 && !p.Addr().IsLinkLocalUnicast() {
				return p.Addr()
			}
		}
	}
	for _, a := range h.IPs() {
		if a.Is6() == v6 {
			return a
		}
	}
	return netip.Addr{}
}

// ---------------------------------------------------------------------------
// Sockets

// Sock is a simulated UDP socket.
type Sock struct {
	w     *World
	h     *Host
	ID    int
	Local netip.AddrPort
	Tag   string // which transport.Net entry point opened it
	Gen   string // generation label assigned by the harness at open time

	rx         []*Datagram
	wake       chan struct{} // closed and replaced on every state change readers care about
	closed     bool
	closedCh   chan struct{}
	CloseCalls int
	rdl, wdl   time.Time
	txSeq      uint64
	OpenedAt   time.Time
	ClosedAt   time.Time

	// Handler, when set, consumes delivered datagrams synchronously (built-in services, scripted peer).
	Handler func(d *Datagram)

	// Faults (set by the simulator under World.Lock or before use).
	BlockWrites bool  // WriteTo parks until write deadline, Close or UnblockWrites
	WriteErr    error // WriteTo fails with this error
	CloseErr    error // Close returns this error (socket is closed anyway)
	// CloseStaysOpen: with CloseErr set, the failed Close leaves the socket open and working (what a wrapper
	// or fake connection whose Close fails may do); only deadlines can then unblock its readers
	CloseStaysOpen bool
	// ReadWakeDelay: a reader that was blocked when the socket got closed (or its deadline moved into the
	// past) returns only this much later - the wake-up reaches the goroutine late
	ReadWakeDelay time.Duration
	readers       int
	SetWDLErr     error // SetWriteDeadline fails with this error

	WDLHistory     []time.Time // every SetWriteDeadline value seen
	BlockedNow     int         // writers currently parked in WriteTo
	WritersEntered int
}

func (w *World) newSock(h *Host, local netip.AddrPort, tag string) *Sock {
	s := &Sock{w: w, h: h, ID: len(w.socks), Local: local, Tag: tag,
		wake: make(chan struct{}), closedCh: make(chan struct{}), OpenedAt: time.Now()}
	w.socks = append(w.socks, s)
	h.bound[local] = s
	w.Stats.Listens++
	return s
}

func (s *Sock) kick() {
	close(s.wake)
	s.wake = make(chan struct{})
}

var errClosed = net.ErrClosed

func opErr(op string, err error) error {
	return &net.OpError{Op: op, Net: "udp", Err: err}
}

// Readers returns how many goroutines are inside a read call of this socket right now.
func (s *Sock) Readers() int {
	s.w.mu.Lock()
	defer s.w.mu.Unlock()
	return s.readers
}

func (s *Sock) readFromAP(b []byte) (int, netip.AddrPort, error) {
	s.w.mu.Lock()
	s.readers++
	s.w.mu.Unlock()
	waited := false
	defer func() {
		s.w.mu.Lock()
		s.readers--
		s.w.mu.Unlock()
	}()
	late := func() {
		s.w.mu.Lock()
		d := s.ReadWakeDelay
		s.w.mu.Unlock()
		if waited && d > 0 {
			time.Sleep(d)
		}
	}
	for {
		s.w.mu.Lock()
		if s.closed {
			s.w.mu.Unlock()
			late()
			return 0, netip.AddrPort{}, opErr("read", errClosed)
		}
		if len(s.rx) > 0 {
			d := s.rx[0]
			s.rx = s.rx[1:]
			s.w.mu.Unlock()
			n := copy(b, d.Payload)
			return n, d.Src, nil
		}
		dl := s.rdl
		wake := s.wake
		s.w.mu.Unlock()
		var tc <-chan time.Time
		if !dl.IsZero() {
			d := time.Until(dl)
			if d <= 0 {
				late()
				return 0, netip.AddrPort{}, opErr("read", os.ErrDeadlineExceeded)
			}
			t := time.NewTimer(d)
			tc = t.C
			waited = true
			select {
			case <-wake:
			case <-tc:
			}
			t.Stop()
			continue
		}
		waited = true
		<-wake
	}
}

func (s *Sock) writeToAP(p []byte, dst netip.AddrPort) (int, error) {
	s.w.mu.Lock()
	s.WritersEntered++
	for {
		if s.closed {
			s.w.mu.Unlock()
			return 0, opErr("write", errClosed)
		}
		if s.WriteErr != nil {
			err := s.WriteErr
			s.w.Stats.WriteErrors++
			s.w.mu.Unlock()
			return 0, opErr("write", err)
		}
		if !s.wdl.IsZero() && !time.Now().Before(s.wdl) {
			s.w.Stats.WriteDeadlineHits++
			s.w.mu.Unlock()
			return 0, opErr("write", os.ErrDeadlineExceeded)
		}
		if !s.BlockWrites && !(dst.IsValid() && s.w.BlockWritesTo[netip.AddrPortFrom(dst.Addr().Unmap(), dst.Port())]) {
			break
		}
		// park: wait for unblock / close / deadline change
		s.BlockedNow++
		s.w.Stats.BlockedWrites++
		dl := s.wdl
		wake := s.wake
		s.w.mu.Unlock()
		if !dl.IsZero() {
			t := time.NewTimer(time.Until(dl))
			select {
			case <-wake:
			case <-t.C:
			}
			t.Stop()
		} else {
			<-wake
		}
		s.w.mu.Lock()
		s.BlockedNow--
	}
	if !dst.IsValid() {
		s.w.mu.Unlock()
		return 0, opErr("write", errors.New("invalid destination"))
	}
	dst = netip.AddrPortFrom(dst.Addr().Unmap(), dst.Port())
	src := s.srcFor(dst)
	if s.h.NAT != nil {
		src = s.h.NAT.outbound(src, dst)
	}
	d := &Datagram{ID: s.w.nextID, SockID: s.ID, Seq: s.txSeq, Src: src, Dst: dst,
		Payload: append([]byte(nil), p...), SentAt: time.Now()}
	s.w.nextID++
	s.txSeq++
	s.w.pool = append(s.w.pool, d)
	s.w.Stats.Sent++
	if s.w.OnSend != nil {
		s.w.OnSend(d)
	}
	s.w.mu.Unlock()
	return len(p), nil
}

func (s *Sock) srcFor(dst netip.AddrPort) netip.AddrPort {
	if !s.Local.Addr().IsUnspecified() {
		return s.Local
	}
	if s.h.Alias.IsValid() && s.h.Alias.Is6() == dst.Addr().Is6() {
		return netip.AddrPortFrom(s.h.Alias, s.Local.Port())
	}
	return netip.AddrPortFrom(s.h.primaryIP(dst.Addr().Is6()), s.Local.Port())
}

// --- net.PacketConn / transport.UDPConn

func (s *Sock) srcForm(ap netip.AddrPort) netip.AddrPort {
	if s.h.MappedV4Sources && ap.Addr().Is4() {
		return netip.AddrPortFrom(netip.AddrFrom16(ap.Addr().As16()), ap.Port())
	}
	return ap
}

func (s *Sock) ReadFrom(p []byte) (int, net.Addr, error) {
	n, ap, err := s.readFromAP(p)
	if err != nil {
		return 0, nil, err
	}
	return n, net.UDPAddrFromAddrPort(s.srcForm(ap)), nil
}

func (s *Sock) ReadFromUDP(b []byte) (int, *net.UDPAddr, error) {
	n, ap, err := s.readFromAP(b)
	if err != nil {
		return 0, nil, err
	}
	return n, net.UDPAddrFromAddrPort(s.srcForm(ap)), nil
}

func (s *Sock) ReadMsgUDP(b, _ []byte) (n, oobn, flags int, addr *net.UDPAddr, err error) {
	n, addr, err = s.ReadFromUDP(b)
	return n, 0, 0, addr, err
}

func (s *Sock) Read(b []byte) (int, error) {
	n, _, err := s.readFromAP(b)
	return n, err
}

func toAddrPort(a net.Addr) netip.AddrPort {
	switch v := a.(type) {
	case *net.UDPAddr:
		if v == nil {
			return netip.AddrPort{}
		}
		ap := v.AddrPort()
		return netip.AddrPortFrom(ap.Addr().Unmap(), ap.Port())
	case *net.TCPAddr:
		ap := v.AddrPort()
		return netip.AddrPortFrom(ap.Addr().Unmap(), ap.Port())
	default:
		if a == nil {
			return netip.AddrPort{}
		}
		ap, _ := netip.ParseAddrPort(a.String())
		return ap
	}
}

func (s *Sock) WriteTo(p []byte, addr net.Addr) (int, error) {
	return s.writeToAP(p, toAddrPort(addr))
}

func (s *Sock) WriteToUDP(b []byte, addr *net.UDPAddr) (int, error) {
	return s.writeToAP(b, toAddrPort(addr))
}

func (s *Sock) WriteMsgUDP(b, _ []byte, addr *net.UDPAddr) (int, int, error) {
	n, err := s.writeToAP(b, toAddrPort(addr))
	return n, 0, err
}

func (s *Sock) Write([]byte) (int, error) { return 0, opErr("write", errors.New("not connected")) }

// Close closes the socket; wakes all blocked readers and writers.
func (s *Sock) Close() error {
	s.w.mu.Lock()
	defer s.w.mu.Unlock()
	s.CloseCalls++
	if s.closed {
		s.w.Stats.RedundantCloses++
		return opErr("close", errClosed)
	}
	if s.CloseErr != nil && s.CloseStaysOpen {
		return s.CloseErr
	}
	s.closed = true
	s.ClosedAt = time.Now()
	s.w.Stats.Closes++
	delete(s.h.bound, s.Local)
	close(s.closedCh)
	s.kick()
	return s.CloseErr
}

func (s *Sock) LocalAddr() net.Addr {
	return net.UDPAddrFromAddrPort(s.Local)
}

func (s *Sock) RemoteAddr() net.Addr { return nil }

func (s *Sock) SetDeadline(t time.Time) error {
	s.w.mu.Lock()
	defer s.w.mu.Unlock()
	if s.closed {
		return opErr("set", errClosed)
	}
	s.rdl = t
	s.wdl = t
	s.WDLHistory = append(s.WDLHistory, t)
	s.kick()
	return nil
}

func (s *Sock) SetReadDeadline(t time.Time) error {
	s.w.mu.Lock()
	defer s.w.mu.Unlock()
	if s.closed {
		return opErr("set", errClosed)
	}
	s.rdl = t
	s.kick()
	return nil
}

func (s *Sock) SetWriteDeadline(t time.Time) error {
	s.w.mu.Lock()
	defer s.w.mu.Unlock()
	if s.closed {
		return opErr("set", errClosed)
	}
	if s.SetWDLErr != nil {
		return opErr("set", s.SetWDLErr)
	}
	s.wdl = t
	s.WDLHistory = append(s.WDLHistory, t)
	s.kick()
	return nil
}

func (s *Sock) SetReadBuffer(int) error  { return nil }
func (s *Sock) SetWriteBuffer(int) error { return nil }

// Closed reports whether the socket is closed.
func (s *Sock) Closed() bool {
	s.w.mu.Lock()
	defer s.w.mu.Unlock()
	return s.closed
}

// Host returns the owning host.
func (s *Sock) Host() *Host { return s.h }

// SetBlockWrites toggles the "write blocks" fault and wakes parked writers when cleared.
func (s *Sock) SetBlockWrites(b bool) {
	s.w.mu.Lock()
	defer s.w.mu.Unlock()
	s.BlockWrites = b
	s.kick()
}

// WriteDeadline returns the current write deadline.
func (s *Sock) WriteDeadline() time.Time {
	s.w.mu.Lock()
	defer s.w.mu.Unlock()
	return s.wdl
}

// Blocked returns how many writers are parked in WriteTo right now.
func (s *Sock) Blocked() int {
	s.w.mu.Lock()
	defer s.w.mu.Unlock()
	return s.BlockedNow
}

// SockAP is a Sock that also implements ice.AddrPortReaderWriter.
type SockAP struct{ *Sock }

func (s SockAP) ReadFromAddrPort(b []byte) (int, netip.AddrPort, error) { return s.readFromAP(b) }
func (s SockAP) WriteToAddrPort(b []byte, a netip.AddrPort) (int, error) {
	return s.writeToAP(b, a)
}

// ---------------------------------------------------------------------------
// transport.Net

type hostNet struct{ h *Host }

// Net returns the transport.Net view of the host.
func (h *Host) Net() transport.Net { return &hostNet{h} }

// Park is a caller parked inside simnet until the simulator releases it.
type Park struct {
	Kind string
	Key  string
	// Fail, when set before Release, makes the parked operation fail with this error.
	Fail error
	seq  uint64
	ch   chan struct{}
}

func (w *World) park(kind, key string) *Park {
	w.mu.Lock()
	p := &Park{Kind: kind, Key: key, seq: w.parkSeq, ch: make(chan struct{})}
	w.parkSeq++
	w.parked = append(w.parked, p)
	w.mu.Unlock()
	<-p.ch
	return p
}

// ParkHere parks the calling goroutine (simulator-owned stubs: TURN client, ...) until released.
func (w *World) ParkHere(kind, key string) *Park { return w.park(kind, key) }

// Parked returns the parked callers in canonical order (kind, key, arrival).
func (w *World) Parked() []*Park {
	w.mu.Lock()
	defer w.mu.Unlock()
	out := append([]*Park(nil), w.parked...)
	sort.SliceStable(out, func(i, j int) bool {
		if out[i].Kind != out[j].Kind {
			return out[i].Kind < out[j].Kind
		}
		if out[i].Key != out[j].Key {
			return out[i].Key < out[j].Key
		}
		return out[i].seq < out[j].seq
	})
	return out
}

// Release lets one parked caller continue.
func (w *World) Release(p *Park) {
	w.mu.Lock()
	for i, q := range w.parked {
		if q == p {
			w.parked = append(w.parked[:i], w.parked[i+1:]...)
			break
		}
	}
	w.mu.Unlock()
	close(p.ch)
}

func (n *hostNet) listen(tag, network string, laddr netip.AddrPort) (*Sock, error) {
	s, err := n.listen0(tag, network, laddr)
	if err != nil {
		n.h.w.mu.Lock()
		n.h.FailedListens = append(n.h.FailedListens, laddr)
		n.h.w.mu.Unlock()
	}
	return s, err
}

func (n *hostNet) listen0(tag, network string, laddr netip.AddrPort) (*Sock, error) {
	h := n.h
	w := h.w
	if w.ParkListens {
		if p := w.park("listen", fmt.Sprintf("%s/%s/%s/%s", h.Name, network, laddr, tag)); p.Fail != nil {
			w.mu.Lock()
			w.Stats.ListenErrors++
			w.mu.Unlock()
			return nil, &net.OpError{Op: "listen", Net: network, Err: p.Fail}
		}
	}
	w.mu.Lock()
	defer w.mu.Unlock()
	v6 := network == "udp6"
	ip := laddr.Addr()
	if !ip.IsValid() {
		if v6 {
			ip = netip.IPv6Unspecified()
		} else {
			ip = netip.IPv4Unspecified()
		}
	}
	ip = ip.Unmap()
	if network == "udp4" && ip.Is6() || network == "udp6" && ip.Is4() {
		w.Stats.ListenErrors++
		return nil, &net.OpError{Op: "listen", Net: network, Err: &net.AddrError{Err: "address family mismatch", Addr: ip.String()}}
	}
	if ip.IsMulticast() {
		// a multicast listener (mDNS): bound like a wildcard socket on that port
		if ip.Is6() {
			ip = netip.IPv6Unspecified()
		} else {
			ip = netip.IPv4Unspecified()
		}
	}
	if !ip.IsUnspecified() && !h.hasIP(ip.WithZone("")) {
		w.Stats.ListenErrors++
		return nil, &net.OpError{Op: "listen", Net: network, Err: os.NewSyscallError("bind", syscall.EADDRNOTAVAIL)}
	}
	if h.ListenFault != nil {
		if err := h.ListenFault(network, netip.AddrPortFrom(ip, laddr.Port())); err != nil {
			w.Stats.ListenErrors++
			return nil, &net.OpError{Op: "listen", Net: network, Err: err}
		}
	}
	port := int(laddr.Port())
	if port == 0 {
		for {
			p := h.nextPort[ip]
			if p == 0 {
				p = 50000
			}
			h.nextPort[ip] = p + 1
			if !h.portBusy(ip, uint16(p)) {
				port = p
				break
			}
			if p > 65000 {
				w.Stats.ListenErrors++
				return nil, &net.OpError{Op: "listen", Net: network, Err: os.NewSyscallError("bind", syscall.EADDRINUSE)}
			}
		}
	} else if h.portBusy(ip, uint16(port)) {
		w.Stats.ListenErrors++
		return nil, &net.OpError{Op: "listen", Net: network, Err: os.NewSyscallError("bind", syscall.EADDRINUSE)}
	}
	return w.newSock(h, netip.AddrPortFrom(ip, uint16(port)), tag), nil
}

func (h *Host) portBusy(ip netip.Addr, port uint16) bool {
	for ap := range h.bound {
		if ap.Port() != port || ap.Addr().Is6() != ip.Is6() {
			continue
		}
		if ap.Addr() == ip || ap.Addr().IsUnspecified() || ip.IsUnspecified() {
			return true
		}
	}
	return false
}

func (n *hostNet) wrap(s *Sock) transport.UDPConn {
	if n.h.AddrPortConns {
		return SockAP{s}
	}
	return s
}

func (n *hostNet) ListenUDP(network string, laddr *net.UDPAddr) (transport.UDPConn, error) {
	var ap netip.AddrPort
	if laddr != nil {
		if laddr.IP != nil {
			a, _ := netip.AddrFromSlice(laddr.IP)
			ap = netip.AddrPortFrom(a.Unmap().WithZone(laddr.Zone), uint16(laddr.Port))
		} else {
			ap = netip.AddrPortFrom(netip.Addr{}, uint16(laddr.Port))
		}
	}
	if network == "udp" {
		network = "udp4"
		if ap.Addr().IsValid() && ap.Addr().Is6() {
			network = "udp6"
		}
	}
	s, err := n.listen("ListenUDP", network, ap)
	if err != nil {
		return nil, err
	}
	return n.wrap(s), nil
}

func (n *hostNet) ListenPacket(network, address string) (net.PacketConn, error) {
	host, portStr, err := net.SplitHostPort(address)
	if err != nil {
		return nil, err
	}
	var ip netip.Addr
	if host != "" {
		ip, err = netip.ParseAddr(host)
		if err != nil {
			return nil, err
		}
	}
	var port int
	_, _ = fmt.Sscanf(portStr, "%d", &port)
	if network == "udp" {
		network = "udp4"
		if ip.IsValid() && ip.Is6() {
			network = "udp6"
		}
	}
	s, err := n.listen("ListenPacket", network, netip.AddrPortFrom(ip, uint16(port)))
	if err != nil {
		return nil, err
	}
	return n.wrap(s), nil
}

func (n *hostNet) ListenTCP(string, *net.TCPAddr) (transport.TCPListener, error) {
	return nil, transport.ErrNotSupported
}
func (n *hostNet) Dial(string, string) (net.Conn, error) { return nil, transport.ErrNotSupported }
func (n *hostNet) DialUDP(string, *net.UDPAddr, *net.UDPAddr) (transport.UDPConn, error) {
	return nil, transport.ErrNotSupported
}

// TCPConn is a simulated outgoing TCP connection (TURN over TCP): the client side of a simstream pair.
type TCPConn struct {
	*simstream.Conn
	Host *Host
	Tag  string
}

func (c *TCPConn) CloseRead() error  { return nil }
func (c *TCPConn) CloseWrite() error { return c.Conn.CloseWrite() }
func (c *TCPConn) ReadFrom(r io.Reader) (int64, error) {
	return io.Copy(struct{ io.Writer }{c.Conn}, r)
}
func (c *TCPConn) SetLinger(int) error                    { return nil }
func (c *TCPConn) SetKeepAlive(bool) error                { return nil }
func (c *TCPConn) SetKeepAlivePeriod(time.Duration) error { return nil }
func (c *TCPConn) SetNoDelay(bool) error                  { return nil }
func (c *TCPConn) SetWriteBuffer(int) error               { return nil }
func (c *TCPConn) SetReadBuffer(int) error                { return nil }

// DialTCP connects to a simulated TCP server: any address listed in World.TCPServers accepts; the server
// side of the stream is kept by the world (nobody reads it: the TURN client is a stub).
func (n *hostNet) DialTCP(network string, _ *net.TCPAddr, raddr *net.TCPAddr) (transport.TCPConn, error) {
	h := n.h
	w := h.w
	if w.ParkListens {
		if p := w.park("dialtcp", fmt.Sprintf("%s/%s/%s", h.Name, network, raddr)); p.Fail != nil {
			return nil, &net.OpError{Op: "dial", Net: network, Err: p.Fail}
		}
	}
	w.mu.Lock()
	defer w.mu.Unlock()
	ok := false
	for _, a := range w.TCPServers {
		if a == raddr.AddrPort() {
			ok = true
		}
	}
	if !ok {
		return nil, &net.OpError{Op: "dial", Net: network, Err: syscall.ECONNREFUSED}
	}
	ip := h.primaryIP(false)
	p := h.nextPort[ip]
	if p == 0 {
		p = 50000
	}
	h.nextPort[ip] = p + 1
	cl, srv := simstream.Pair(&net.TCPAddr{IP: ip.AsSlice(), Port: p}, raddr)
	_ = srv
	c := &TCPConn{Conn: cl, Host: h, Tag: "DialTCP"}
	w.TCPConns = append(w.TCPConns, c)
	return c, nil
}
func (n *hostNet) ResolveIPAddr(_, address string) (*net.IPAddr, error) {
	ip := net.ParseIP(address)
	if ip == nil {
		return nil, &net.DNSError{Err: "no such host", Name: address, IsNotFound: true}
	}
	return &net.IPAddr{IP: ip}, nil
}
func (n *hostNet) ResolveUDPAddr(network, address string) (*net.UDPAddr, error) {
	if n.h.ResolveFault != nil {
		return nil, n.h.ResolveFault
	}
	ap, err := netip.ParseAddrPort(address)
	if err != nil {
		return nil, &net.DNSError{Err: "no such host", Name: address, IsNotFound: true}
	}
	if (network == "udp4" && ap.Addr().Is6()) || (network == "udp6" && ap.Addr().Is4()) {
		return nil, &net.AddrError{Err: "no suitable address found", Addr: address}
	}
	return net.UDPAddrFromAddrPort(ap), nil
}
func (n *hostNet) ResolveTCPAddr(_, address string) (*net.TCPAddr, error) {
	ap, err := netip.ParseAddrPort(address)
	if err != nil {
		return nil, &net.DNSError{Err: "no such host", Name: address, IsNotFound: true}
	}
	return net.TCPAddrFromAddrPort(ap), nil
}
func (n *hostNet) Interfaces() ([]*transport.Interface, error) {
	var out []*transport.Interface
	for i, spec := range n.h.Ifaces {
		ifc := transport.NewInterface(net.Interface{Index: i + 1, MTU: 1500, Name: spec.Name, Flags: spec.Flags})
		for _, p := range spec.Addrs {
			bits := 32
			if p.Addr().Is6() {
				bits = 128
			}
			ifc.AddAddress(&net.IPNet{IP: p.Addr().AsSlice(), Mask: net.CIDRMask(p.Bits(), bits)})
		}
		out = append(out, ifc)
	}
	return out, nil
}
func (n *hostNet) InterfaceByIndex(index int) (*transport.Interface, error) {
	ifs, _ := n.Interfaces()
	for _, i := range ifs {
		if i.Index == index {
			return i, nil
		}
	}
	return nil, transport.ErrInterfaceNotFound
}
func (n *hostNet) InterfaceByName(name string) (*transport.Interface, error) {
	ifs, _ := n.Interfaces()
	for _, i := range ifs {
		if i.Name == name {
			return i, nil
		}
	}
	return nil, transport.ErrInterfaceNotFound
}
func (n *hostNet) CreateDialer(*net.Dialer) transport.Dialer { return nil }
func (n *hostNet) CreateListenConfig(*net.ListenConfig) transport.ListenConfig {
	return nil
}

// ---------------------------------------------------------------------------
// Simulator-side operations

// Lock/Unlock give the simulator exclusive access for multi-field fault edits.
func (w *World) Lock()   { w.mu.Lock() }
func (w *World) Unlock() { w.mu.Unlock() }

// InFlight returns the in-flight datagrams sorted by (socket id, per-socket seq, id),
// i.e. independent of the real-time order in which concurrent senders appended.
func (w *World) InFlight() []*Datagram {
	w.mu.Lock()
	defer w.mu.Unlock()
	return w.sortedPoolLocked()
}

func (w *World) sortedPoolLocked() []*Datagram {
	out := append([]*Datagram(nil), w.pool...)
	sort.SliceStable(out, func(i, j int) bool {
		a, b := out[i], out[j]
		if a.SockID != b.SockID {
			return a.SockID < b.SockID
		}
		if a.Seq != b.Seq {
			return a.Seq < b.Seq
		}
		if a.Dup != b.Dup {
			return !a.Dup
		}
		return a.ID < b.ID
	})
	return out
}

func (w *World) removeLocked(d *Datagram) bool {
	for i, q := range w.pool {
		if q == d {
			w.pool = append(w.pool[:i], w.pool[i+1:]...)
			return true
		}
	}
	return false
}

// Drop removes a datagram from the pool.
func (w *World) Drop(d *Datagram) {
	w.mu.Lock()
	if w.removeLocked(d) {
		w.Stats.Dropped++
	}
	w.mu.Unlock()
}

// Duplicate adds a copy of d to the pool.
func (w *World) Duplicate(d *Datagram) *Datagram {
	w.mu.Lock()
	defer w.mu.Unlock()
	c := *d
	c.ID = w.nextID
	w.nextID++
	c.Dup = true
	c.Payload = append([]byte(nil), d.Payload...)
	w.pool = append(w.pool, &c)
	w.Stats.Duplicated++
	return &c
}

// DeliverResult says what happened to a datagram.
type DeliverResult int

const (
	Delivered DeliverResult = iota
	NoRoute
	Unreachable
	Filtered
)

func (r DeliverResult) String() string {
	return [...]string{"delivered", "noroute", "unreachable", "natfiltered"}[r]
}

// Deliver removes d from the pool and hands it to the destination socket, resolving
// NAT and reachability now.
func (w *World) Deliver(d *Datagram) (DeliverResult, *Sock) {
	w.mu.Lock()
	w.removeLocked(d)
	res, s := w.routeLocked(d)
	var handler func(*Datagram)
	var dd *Datagram
	if res == Delivered {
		dd = d
		if w.OnDeliver != nil {
			w.OnDeliver(dd, s)
		}
		if s.Handler != nil {
			handler = s.Handler
		} else {
			s.rx = append(s.rx, dd)
			s.kick()
		}
		w.Stats.Delivered++
	}
	w.mu.Unlock()
	if handler != nil {
		handler(dd)
	}
	return res, s
}

func (w *World) routeLocked(d *Datagram) (DeliverResult, *Sock) {
	if w.Reach != nil && !w.Reach(d.Src, d.Dst) {
		w.Stats.Unreachable++
		return Unreachable, nil
	}
	dst := d.Dst
	for _, h := range w.hosts {
		if h.NAT != nil && h.NAT.Public == dst.Addr() {
			inner, ok, filtered := h.NAT.inbound(d.Src, dst)
			if filtered {
				w.Stats.NATFiltered++
				return Filtered, nil
			}
			if !ok {
				w.Stats.NoRoute++
				return NoRoute, nil
			}
			if s := h.lookup(inner); s != nil {
				// the socket sees its own (private) address as destination
				return Delivered, s
			}
			w.Stats.NoRoute++
			return NoRoute, nil
		}
		if h.NAT == nil && (h.hasIP(dst.Addr()) || (h.Alias.IsValid() && h.Alias == dst.Addr())) {
			if s := h.lookup(dst); s != nil {
				return Delivered, s
			}
			w.Stats.NoRoute++
			return NoRoute, nil
		}
	}
	w.Stats.NoRoute++
	return NoRoute, nil
}

func (h *Host) lookup(dst netip.AddrPort) *Sock {
	if s, ok := h.bound[dst]; ok && !s.closed {
		return s
	}
	var unspec netip.Addr
	if dst.Addr().Is6() {
		unspec = netip.IPv6Unspecified()
	} else {
		unspec = netip.IPv4Unspecified()
	}
	if s, ok := h.bound[netip.AddrPortFrom(unspec, dst.Port())]; ok && !s.closed {
		return s
	}
	return nil
}

// Inject puts a datagram with an arbitrary source into the pool (not yet delivered).
func (w *World) Inject(src, dst netip.AddrPort, payload []byte, note string) *Datagram {
	w.mu.Lock()
	defer w.mu.Unlock()
	d := &Datagram{ID: w.nextID, SockID: -1, Seq: w.nextID, Src: src, Dst: dst,
		Payload: append([]byte(nil), payload...), SentAt: time.Now(), Note: note}
	w.nextID++
	w.pool = append(w.pool, d)
	return d
}

// Sockets returns all sockets ever opened, in id order.
func (w *World) Sockets() []*Sock {
	w.mu.Lock()
	defer w.mu.Unlock()
	return append([]*Sock(nil), w.socks...)
}

// OpenSockets returns the sockets that are still open.
func (w *World) OpenSockets() []*Sock {
	w.mu.Lock()
	defer w.mu.Unlock()
	var out []*Sock
	for _, s := range w.socks {
		if !s.closed {
			out = append(out, s)
		}
	}
	return out
}

// FindSock returns the open socket that would receive traffic for addr on host h.
func (h *Host) FindSock(addr netip.AddrPort) *Sock {
	h.w.mu.Lock()
	defer h.w.mu.Unlock()
	return h.lookup(addr)
}

// OpenServiceSock binds a simulator-owned socket (scripted peer, STUN server) with a handler.
func (h *Host) OpenServiceSock(addr netip.AddrPort, handler func(d *Datagram)) *Sock {
	h.w.mu.Lock()
	defer h.w.mu.Unlock()
	s := h.w.newSock(h, addr, "service")
	h.w.Stats.Listens-- // not opened by the system under test
	s.Handler = handler
	return s
}

// SendFrom lets simulator-owned code send from a service socket.
func (s *Sock) SendFrom(dst netip.AddrPort, payload []byte) {
	_, _ = s.writeToAP(payload, dst)
}

// StatsSnapshot returns a copy of the counters.
func (w *World) StatsSnapshot() Stats {
	w.mu.Lock()
	defer w.mu.Unlock()
	return w.Stats
}

// ObservedSrc returns the source address a peer at dst observes for datagrams sent from s
// (after the host's NAT, if any). ok=false when a NAT is in between and no mapping exists yet.
func (w *World) ObservedSrc(s *Sock, dst netip.AddrPort) (netip.AddrPort, bool) {
	w.mu.Lock()
	defer w.mu.Unlock()
	src := s.srcFor(dst)
	if s.h.NAT == nil {
		return src, true
	}
	return s.h.NAT.peek(src, dst)
}

// RouteOf returns the open socket a datagram src->dst would be handed to right now (nil if none).
func (w *World) RouteOf(src, dst netip.AddrPort) *Sock {
	w.mu.Lock()
	defer w.mu.Unlock()
	st := w.Stats
	res, s := w.routeLocked(&Datagram{Src: src, Dst: dst})
	w.Stats = st
	if res != Delivered {
		return nil
	}
	return s
}

// SockByPort returns the open socket of host h bound to the given port (any address), or nil.
func (h *Host) SockByPort(port uint16) *Sock {
	h.w.mu.Lock()
	defer h.w.mu.Unlock()
	for ap, s := range h.bound {
		if ap.Port() == port && !s.closed && s.Tag != "service" {
			return s
		}
	}
	return nil
}

// FindSockAnywhere returns the open socket bound exactly to addr on any host (relay allocations live on
// the relay host), or nil.
func (w *World) FindSockAnywhere(addr netip.AddrPort) *Sock {
	w.mu.Lock()
	defer w.mu.Unlock()
	for _, h := range w.hosts {
		if s, ok := h.bound[addr]; ok && !s.closed {
			return s
		}
	}
	return nil
}

// OpenTCPConns returns the simulated outgoing TCP connections that are still open.
func (w *World) OpenTCPConns() []*TCPConn {
	w.mu.Lock()
	cs := append([]*TCPConn(nil), w.TCPConns...)
	w.mu.Unlock()
	var out []*TCPConn
	for _, c := range cs {
		if !c.Closed() {
			out = append(out, c)
		}
	}
	return out
}
