package simnet

import "net/netip"

// NATKind selects mapping and filtering behaviour (RFC 4787 terms).
type NATKind int

const (
	// NATFullCone: endpoint-independent mapping and filtering.
	NATFullCone NATKind = iota
	// NATAddrRestricted: endpoint-independent mapping, address-dependent filtering.
	NATAddrRestricted
	// NATPortRestricted: endpoint-independent mapping, address-and-port-dependent filtering.
	NATPortRestricted
	// NATSymmetric: address-and-port-dependent mapping and filtering.
	NATSymmetric
)

func (k NATKind) String() string {
	return [...]string{"fullcone", "addr-restricted", "port-restricted", "symmetric"}[k]
}

type natKey struct {
	inner netip.AddrPort
	dst   netip.AddrPort // zero for endpoint-independent mapping
}

type natMapping struct {
	inner  netip.AddrPort
	public netip.AddrPort
	dsts   map[netip.AddrPort]bool // destinations contacted through this mapping
}

// NAT is a simulated NAT box in front of one host.
type NAT struct {
	Kind     NATKind
	Public   netip.Addr
	nextPort uint16
	byKey    map[natKey]*natMapping
	byPort   map[uint16]*natMapping
}

// NewNAT creates a NAT with the given public address.
func NewNAT(kind NATKind, public string) *NAT {
	return &NAT{Kind: kind, Public: netip.MustParseAddr(public), nextPort: 40000,
		byKey: map[natKey]*natMapping{}, byPort: map[uint16]*natMapping{}}
}

// outbound translates the source of a packet leaving the host (world lock held).
func (n *NAT) outbound(src, dst netip.AddrPort) netip.AddrPort {
	k := natKey{inner: src}
	if n.Kind == NATSymmetric {
		k.dst = dst
	}
	m := n.byKey[k]
	if m == nil {
		m = &natMapping{inner: src, public: netip.AddrPortFrom(n.Public, n.nextPort), dsts: map[netip.AddrPort]bool{}}
		n.nextPort++
		n.byKey[k] = m
		n.byPort[m.public.Port()] = m
	}
	m.dsts[dst] = true
	return m.public
}

// inbound resolves a packet addressed to the public side. filtered=true when a
// mapping exists but the filtering rule rejects the source.
func (n *NAT) inbound(src, dst netip.AddrPort) (inner netip.AddrPort, ok, filtered bool) {
	m := n.byPort[dst.Port()]
	if m == nil {
		return netip.AddrPort{}, false, false
	}
	switch n.Kind {
	case NATFullCone:
		return m.inner, true, false
	case NATAddrRestricted:
		for d := range m.dsts {
			if d.Addr() == src.Addr() {
				return m.inner, true, false
			}
		}
		return netip.AddrPort{}, false, true
	default:
		if m.dsts[src] {
			return m.inner, true, false
		}
		return netip.AddrPort{}, false, true
	}
}

// peek returns the public mapping an outbound packet src->dst would use, without creating one.
func (n *NAT) peek(src, dst netip.AddrPort) (netip.AddrPort, bool) {
	k := natKey{inner: src}
	if n.Kind == NATSymmetric {
		k.dst = dst
	}
	if m := n.byKey[k]; m != nil {
		return m.public, true
	}
	return netip.AddrPort{}, false
}
