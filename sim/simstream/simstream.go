// Package simstream is a simulated TCP world for use inside a testing/synctest
// bubble: in-memory full-duplex byte streams (net.Conn) and a net.Listener whose
// Accept is fed by Dial. Nothing here touches real sockets or the real clock:
// blocking is on channels and (fake-clock) timers created inside the bubble, so a
// blocked Read/Write/Accept is "durably blocked" for synctest.Wait.
//
// What the reader sees is decided by the caller, not by the writer: every Read of
// a Conn consults its Chunker, which says how many of the available bytes this
// Read returns (short reads, header splits, coalescing). Fault knobs cut the
// stream at a byte offset (EOF, reset, arbitrary error) on either side. Each Conn
// keeps a record of what the code under test asked of it (largest Read request,
// bytes consumed, operations in flight), so "never an unbounded read" and "no
// goroutine is left blocked on this stream" are observable.
package simstream

import (
	"errors"
	"io"
	"math/rand/v2"
	"net"
	"os"
	"sync"
	"time"
)

// ErrReset is what a reader/writer sees after the peer aborted the stream (RST).
var ErrReset = errors.New("simstream: connection reset by peer")

// ErrBrokenPipe is returned by Write after the peer closed or the write side was shut down.
var ErrBrokenPipe = errors.New("simstream: broken pipe")

// ErrRefused is returned by Dial on a closed listener.
var ErrRefused = errors.New("simstream: connection refused")

// ChunkFunc decides how many bytes one Read returns: avail bytes are queued, the
// caller's buffer has room for want; the result is clamped to 1..min(avail,want).
type ChunkFunc func(avail, want int) int

// Full returns as much as fits (what an unsegmented stream looks like).
func Full(avail, want int) int { return min(avail, want) }

// OneByte returns one byte per Read.
func OneByte(int, int) int { return 1 }

// Seeded returns a chunker driven by its own PCG stream (seed it from the tape).
// It needs no tape access, so it is safe on goroutines of the code under test.
func Seeded(seed uint64) ChunkFunc {
	r := rand.New(rand.NewPCG(seed, 0x5151))
	return func(avail, want int) int {
		m := min(avail, want)
		switch r.IntN(4) {
		case 0:
			return 1
		case 1:
			return m
		default:
			return 1 + r.IntN(m)
		}
	}
}

// Plan returns the given sizes in turn (cycling); 0 or less means "as much as fits".
func Plan(sizes []int) ChunkFunc {
	i := 0
	return func(avail, want int) int {
		if len(sizes) == 0 {
			return min(avail, want)
		}
		n := sizes[i%len(sizes)]
		i++
		if n <= 0 {
			return min(avail, want)
		}
		return n
	}
}

// Stats is what the user of a Conn asked of it so far.
type Stats struct {
	ReadCalls    int
	MaxReadReq   int   // largest len(p) passed to Read
	ZeroReads    int   // Read calls with an empty buffer
	BytesRead    int64 // bytes consumed through Read
	WriteCalls   int
	BytesWritten int64 // bytes accepted by Write
}

// pair is the state shared by the two ends of one stream.
type pair struct {
	mu   sync.Mutex
	wake chan struct{} // closed and replaced at every state change
}

func (p *pair) broadcast() {
	close(p.wake)
	p.wake = make(chan struct{})
}

// Conn is one end of a simulated stream.
type Conn struct {
	pr            *pair
	peer          *Conn
	local, remote *net.TCPAddr

	rx     []byte // bytes queued towards this end
	rxCap  int    // >0: the peer's Write blocks while len(rx) >= rxCap
	rxFin  bool   // the peer shut down its write side: EOF once rx is drained
	rxRst  bool   // the peer aborted
	closed bool   // Close was called on this end
	wrShut bool   // CloseWrite was called on this end

	rdl, wdl time.Time
	wdlErr   error // fault: arming a (non-zero) write deadline fails with this error
	wdlAll   bool  // ... and so does clearing it (a stream that refuses every deadline call)

	chunker ChunkFunc

	readFaultAt  int64 // -1: none; absolute offset in bytes consumed
	readFaultErr error
	readErr      error // sticky, once the read fault tripped
	writeFaultAt int64
	writeFaultEr error
	writeErr     error

	st             Stats
	consumed       int64 // bytes read since creation (read faults are relative to this)
	produced       int64 // bytes written since creation (write faults are relative to this)
	readsInFlight  int
	writesInFlight int
}

// Pair creates a connected stream; a's local address is aAddr, b's is bAddr.
func Pair(aAddr, bAddr *net.TCPAddr) (*Conn, *Conn) {
	pr := &pair{wake: make(chan struct{})}
	a := &Conn{pr: pr, local: aAddr, remote: bAddr, readFaultAt: -1, writeFaultAt: -1}
	b := &Conn{pr: pr, local: bAddr, remote: aAddr, readFaultAt: -1, writeFaultAt: -1}
	a.peer, b.peer = b, a
	return a, b
}

// SetChunker installs the read-chunk oracle of this end (nil = Full).
func (c *Conn) SetChunker(f ChunkFunc) {
	c.pr.mu.Lock()
	c.chunker = f
	c.pr.mu.Unlock()
}

// SetRecvCap bounds the receive queue of this end (0 = unbounded): the peer's Write blocks when it is full.
func (c *Conn) SetRecvCap(n int) {
	c.pr.mu.Lock()
	c.rxCap = n
	c.pr.broadcast()
	c.pr.mu.Unlock()
}

// FailReadAt makes Read return err (for ever) once off bytes in total have been consumed
// through this end; bytes before the offset are still delivered. err = io.EOF is a
// truncated stream, ErrReset a reset.
func (c *Conn) FailReadAt(off int64, err error) {
	c.pr.mu.Lock()
	c.readFaultAt, c.readFaultErr = off, err
	c.pr.broadcast()
	c.pr.mu.Unlock()
}

// FailWriteAt makes Write fail with err (for ever) once off bytes in total have been
// accepted from this end; the failing Write reports the bytes it did accept.
func (c *Conn) FailWriteAt(off int64, err error) {
	c.pr.mu.Lock()
	c.writeFaultAt, c.writeFaultEr = off, err
	c.pr.broadcast()
	c.pr.mu.Unlock()
}

func timeoutErr() error { return os.ErrDeadlineExceeded }

// Read implements net.Conn. It blocks (durably) until data, EOF, an error, Close or the read deadline.
func (c *Conn) Read(p []byte) (int, error) {
	pr := c.pr
	pr.mu.Lock()
	defer pr.mu.Unlock()
	c.st.ReadCalls++
	if len(p) > c.st.MaxReadReq {
		c.st.MaxReadReq = len(p)
	}
	if len(p) == 0 {
		c.st.ZeroReads++
	}
	c.readsInFlight++
	defer func() { c.readsInFlight-- }()
	for {
		switch {
		case c.closed:
			return 0, net.ErrClosed
		case c.readErr != nil:
			return 0, c.readErr
		case !c.rdl.IsZero() && !time.Now().Before(c.rdl):
			return 0, timeoutErr()
		case len(p) == 0:
			return 0, nil
		case c.rxRst:
			return 0, ErrReset
		}
		avail := len(c.rx)
		if c.readFaultAt >= 0 {
			rem := c.readFaultAt - c.consumed
			if rem <= 0 {
				c.readErr = c.readFaultErr
				return 0, c.readErr
			}
			if int64(avail) > rem {
				avail = int(rem)
			}
		}
		if avail > 0 {
			m := min(avail, len(p))
			n := m
			if c.chunker != nil {
				n = c.chunker(avail, len(p))
				if n < 1 {
					n = 1
				}
				if n > m {
					n = m
				}
			}
			copy(p, c.rx[:n])
			c.rx = c.rx[n:]
			c.st.BytesRead += int64(n)
			c.consumed += int64(n)
			pr.broadcast() // room for a blocked writer
			return n, nil
		}
		if c.rxFin {
			return 0, io.EOF
		}
		c.wait(c.rdl)
	}
}

// wait releases the lock until the pair changes state or the deadline passes.
func (c *Conn) wait(dl time.Time) {
	pr := c.pr
	ch := pr.wake
	var tm *time.Timer
	var tc <-chan time.Time
	if !dl.IsZero() {
		tm = time.NewTimer(time.Until(dl))
		tc = tm.C
	}
	pr.mu.Unlock()
	select {
	case <-ch:
	case <-tc:
	}
	if tm != nil {
		tm.Stop()
	}
	pr.mu.Lock()
}

// Write implements net.Conn. Bytes are queued at the peer; it blocks only when the peer has a receive cap.
func (c *Conn) Write(p []byte) (int, error) {
	pr := c.pr
	pr.mu.Lock()
	defer pr.mu.Unlock()
	c.st.WriteCalls++
	c.writesInFlight++
	defer func() { c.writesInFlight-- }()
	written := 0
	for {
		switch {
		case c.closed:
			return written, net.ErrClosed
		case c.writeErr != nil:
			return written, c.writeErr
		case !c.wdl.IsZero() && !time.Now().Before(c.wdl):
			return written, timeoutErr()
		case c.rxRst:
			return written, ErrReset
		case c.wrShut || c.peer.closed:
			return written, ErrBrokenPipe
		}
		if written == len(p) {
			return written, nil
		}
		room := len(p) - written
		if c.writeFaultAt >= 0 {
			rem := c.writeFaultAt - c.produced
			if rem <= 0 {
				c.writeErr = c.writeFaultEr
				return written, c.writeErr
			}
			if int64(room) > rem {
				room = int(rem)
			}
		}
		if c.peer.rxCap > 0 {
			room = min(room, c.peer.rxCap-len(c.peer.rx))
		}
		if room > 0 {
			c.peer.rx = append(c.peer.rx, p[written:written+room]...)
			written += room
			c.st.BytesWritten += int64(room)
			c.produced += int64(room)
			pr.broadcast()
			continue
		}
		c.wait(c.wdl)
	}
}

// Close closes this end: blocked operations on it fail with net.ErrClosed, the peer
// reads what is queued and then EOF, the peer's writes fail.
func (c *Conn) Close() error {
	pr := c.pr
	pr.mu.Lock()
	defer pr.mu.Unlock()
	if c.closed {
		return net.ErrClosed
	}
	c.closed = true
	c.rx = nil
	c.peer.rxFin = true
	pr.broadcast()
	return nil
}

// CloseWrite shuts down the write side only (FIN): the peer reads EOF after the queued bytes.
func (c *Conn) CloseWrite() error {
	pr := c.pr
	pr.mu.Lock()
	defer pr.mu.Unlock()
	if c.closed {
		return net.ErrClosed
	}
	c.wrShut = true
	c.peer.rxFin = true
	pr.broadcast()
	return nil
}

// Abort closes this end with a reset: queued bytes in both directions are discarded
// and the peer's next Read/Write fails with ErrReset.
func (c *Conn) Abort() {
	pr := c.pr
	pr.mu.Lock()
	defer pr.mu.Unlock()
	if c.closed {
		return
	}
	c.closed = true
	c.rx = nil
	c.peer.rx = nil
	c.peer.rxRst = true
	pr.broadcast()
}

// LocalAddr implements net.Conn (*net.TCPAddr).
func (c *Conn) LocalAddr() net.Addr { return c.local }

// RemoteAddr implements net.Conn (*net.TCPAddr).
func (c *Conn) RemoteAddr() net.Addr { return c.remote }

// SetDeadline implements net.Conn.
func (c *Conn) SetDeadline(t time.Time) error {
	c.pr.mu.Lock()
	defer c.pr.mu.Unlock()
	if c.closed {
		return net.ErrClosed
	}
	if c.wdlErr != nil && (!t.IsZero() || c.wdlAll) {
		c.rdl = t
		c.pr.broadcast()
		return c.wdlErr
	}
	c.rdl, c.wdl = t, t
	c.pr.broadcast()
	return nil
}

// SetReadDeadline implements net.Conn.
func (c *Conn) SetReadDeadline(t time.Time) error {
	c.pr.mu.Lock()
	defer c.pr.mu.Unlock()
	if c.closed {
		return net.ErrClosed
	}
	c.rdl = t
	c.pr.broadcast()
	return nil
}

// FailWriteDeadlines makes every later attempt to arm a non-zero write deadline on this end fail with err
// (the deadline is then not applied); clearing a deadline keeps working.
func (c *Conn) FailWriteDeadlines(err error) {
	c.pr.mu.Lock()
	c.wdlErr = err
	c.pr.mu.Unlock()
}

// FailAllWriteDeadlineCalls makes every later SetWriteDeadline on this end fail with err, whether it arms or
// clears (nothing is applied): a stream that refuses the call altogether.
func (c *Conn) FailAllWriteDeadlineCalls(err error) {
	c.pr.mu.Lock()
	c.wdlErr, c.wdlAll = err, true
	c.pr.mu.Unlock()
}

// SetWriteDeadline implements net.Conn.
func (c *Conn) SetWriteDeadline(t time.Time) error {
	c.pr.mu.Lock()
	defer c.pr.mu.Unlock()
	if c.closed {
		return net.ErrClosed
	}
	if c.wdlErr != nil && (!t.IsZero() || c.wdlAll) {
		return c.wdlErr
	}
	c.wdl = t
	c.pr.broadcast()
	return nil
}

// Stats returns a copy of the usage record.
func (c *Conn) Stats() Stats {
	c.pr.mu.Lock()
	defer c.pr.mu.Unlock()
	return c.st
}

// ResetStats clears the usage record (to measure one call of the code under test).
func (c *Conn) ResetStats() {
	c.pr.mu.Lock()
	defer c.pr.mu.Unlock()
	c.st = Stats{}
}

// Consumed returns the total number of bytes read through this end since it was created.
func (c *Conn) Consumed() int64 {
	c.pr.mu.Lock()
	defer c.pr.mu.Unlock()
	return c.consumed
}

// Closed reports whether Close/Abort was called on this end.
func (c *Conn) Closed() bool {
	c.pr.mu.Lock()
	defer c.pr.mu.Unlock()
	return c.closed
}

// Peer returns the other end.
func (c *Conn) Peer() *Conn { return c.peer }

// Buffered returns a copy of the bytes queued towards this end and not yet read.
func (c *Conn) Buffered() []byte {
	c.pr.mu.Lock()
	defer c.pr.mu.Unlock()
	return append([]byte(nil), c.rx...)
}

// BufferedLen returns the number of bytes queued towards this end.
func (c *Conn) BufferedLen() int {
	c.pr.mu.Lock()
	defer c.pr.mu.Unlock()
	return len(c.rx)
}

// InFlight returns the number of Read and Write calls currently executing (blocked) on this end.
func (c *Conn) InFlight() (reads, writes int) {
	c.pr.mu.Lock()
	defer c.pr.mu.Unlock()
	return c.readsInFlight, c.writesInFlight
}

// ReadDeadline returns the read deadline currently set on this end.
func (c *Conn) ReadDeadline() time.Time {
	c.pr.mu.Lock()
	defer c.pr.mu.Unlock()
	return c.rdl
}

// Listener is a net.Listener fed by Dial.
type Listener struct {
	mu       sync.Mutex
	addr     *net.TCPAddr
	backlog  []*Conn
	closed   bool
	wake     chan struct{}
	inAccept int
	accepted []*Conn
}

// Listen creates a listener on addr.
func Listen(addr *net.TCPAddr) *Listener {
	return &Listener{addr: addr, wake: make(chan struct{})}
}

func (l *Listener) broadcast() {
	close(l.wake)
	l.wake = make(chan struct{})
}

// Accept implements net.Listener; it blocks (durably) until a client dials or the listener is closed.
func (l *Listener) Accept() (net.Conn, error) {
	l.mu.Lock()
	defer l.mu.Unlock()
	l.inAccept++
	defer func() { l.inAccept-- }()
	for {
		if l.closed {
			return nil, net.ErrClosed
		}
		if len(l.backlog) > 0 {
			c := l.backlog[0]
			l.backlog = l.backlog[1:]
			l.accepted = append(l.accepted, c)
			return c, nil
		}
		ch := l.wake
		l.mu.Unlock()
		<-ch
		l.mu.Lock()
	}
}

// Close implements net.Listener: Accept fails from now on, connections still in the backlog are reset.
func (l *Listener) Close() error {
	l.mu.Lock()
	if l.closed {
		l.mu.Unlock()
		return net.ErrClosed
	}
	l.closed = true
	bl := l.backlog
	l.backlog = nil
	l.broadcast()
	l.mu.Unlock()
	for _, c := range bl {
		c.Abort()
	}
	return nil
}

// Addr implements net.Listener (*net.TCPAddr).
func (l *Listener) Addr() net.Addr { return l.addr }

// DialOpts are the per-connection settings of Dial.
type DialOpts struct {
	// Local is the local address of the accepted (server-side) conn; nil = the listener's address.
	Local *net.TCPAddr
	// ServerChunker is installed on the server-side conn before it can be accepted.
	ServerChunker ChunkFunc
	// ClientRecvCap bounds the client's receive queue (server writes block when full).
	ClientRecvCap int
}

// Dial connects a client with address remote; it returns the client-side conn at once
// (the server side waits in the backlog until Accept takes it).
func (l *Listener) Dial(remote *net.TCPAddr, o DialOpts) (*Conn, error) {
	l.mu.Lock()
	defer l.mu.Unlock()
	if l.closed {
		return nil, ErrRefused
	}
	local := o.Local
	if local == nil {
		local = l.addr
	}
	srv, cli := Pair(local, remote)
	srv.chunker = o.ServerChunker
	cli.rxCap = o.ClientRecvCap
	l.backlog = append(l.backlog, srv)
	l.broadcast()
	return cli, nil
}

// Closed reports whether Close was called.
func (l *Listener) Closed() bool {
	l.mu.Lock()
	defer l.mu.Unlock()
	return l.closed
}

// AcceptsInFlight returns the number of Accept calls currently blocked.
func (l *Listener) AcceptsInFlight() int {
	l.mu.Lock()
	defer l.mu.Unlock()
	return l.inAccept
}

// Accepted returns the server-side conns handed out by Accept so far, in order.
func (l *Listener) Accepted() []*Conn {
	l.mu.Lock()
	defer l.mu.Unlock()
	return append([]*Conn(nil), l.accepted...)
}

// Backlog returns the number of dialled connections not yet accepted.
func (l *Listener) Backlog() int {
	l.mu.Lock()
	defer l.mu.Unlock()
	return len(l.backlog)
}

var (
	_ net.Conn     = (*Conn)(nil)
	_ net.Listener = (*Listener)(nil)
)
