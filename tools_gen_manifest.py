#!/usr/bin/env python3
"""Generates MANIFEST.json from checks.json + the static text below (kept in one place so it stays valid)."""
import json, os
V = os.path.dirname(os.path.abspath(__file__))
cfg = {fn[:-5]: json.load(open(os.path.join(V, "checks.d", fn))) for fn in sorted(os.listdir(os.path.join(V, "checks.d"))) if fn.endswith(".json")}
meta = json.load(open(os.path.join(V, "manifest_meta.json")))
checks = []
for cid in sorted(cfg):
    if cid in meta.get("pending", []):
        continue
    m = meta["checks"].get(cid, {})
    c = {
        "property_id": cid,
        "quick_cmd": f"bin/vcheck run {cid} --tier quick",
        "thorough_cmd": f"bin/vcheck run {cid} --tier thorough",
        "evidence_file": f"evidence/{cid}.json",
        "replay_cmd_template": "bin/vcheck replay {path}",
        "engine": m.get("engine", "sim"),
        "level_claimed": {"category": cfg[cid].get("level", "exploration"), "text": m.get("level_text", ""), "design_ref": m.get("design_ref", "DESIGN.md §4 " + cid)},
        "level_note": m.get("level_note", ""),
        "technique": m.get("technique", "deterministic simulation with fault injection (seeded schedule/fault search)"),
    }
    checks.append(c)
claimed = {c["property_id"] for c in checks}
na = [x for x in meta["not_applicable"] if x["property_id"] not in claimed]
man = {
    "version": 1,
    "setup_cmd": "bin/vcheck build",
    "hooks": meta["hooks"],
    "engines": meta["engines"],
    "checks": checks,
    "notes": meta["notes"],
    "not_applicable": na,
}
json.dump(man, open(os.path.join(V, "MANIFEST.json"), "w"), indent=1)
print("MANIFEST.json written:", len(checks), "checks,", len(na), "not applicable")
