#!/usr/bin/env python3
"""Rewrites the table of DESIGN.md §12 from seeded/*/meta.json and result.json."""
import json, os, glob, re
V = os.path.dirname(os.path.abspath(__file__))
rows = []
for d in sorted(glob.glob(os.path.join(V, "seeded", "*"))):
    if not os.path.isdir(d): continue
    meta = json.load(open(os.path.join(d, "meta.json")))
    res = {}
    rp = os.path.join(d, "result.json")
    hist = []
    if os.path.exists(rp):
        r = json.load(open(rp)); res = r["latest"]["results"]; hist = r.get("history", [])
    first = {}
    merged = {}
    for h in hist:
        for c, v in h["results"].items():
            first.setdefault(c, v["caught"])
            merged[c] = v  # the last result per check, whichever invocation produced it
    merged.update(res)
    res = merged
    notes = ""
    np_ = os.path.join(d, "notes.md")
    if os.path.exists(np_):
        for line in open(np_):
            if line.startswith("# "):
                notes = line[2:].strip(); break
    for c, v in sorted(res.items()):
        cls = ""
        for l in v.get("lines", []):
            m = re.search(r"class=(\S+)", l)
            if m: cls = m.group(1); break
        status = "caught" if v["caught"] else ("MISSED" if v["exit"] == 0 else "error")
        if not v["caught"] and meta.get("neutralised") and c == meta["property"]:
            status = "not caught - " + meta["neutralised"]
        if v["caught"] and first.get(c) is False:
            status = "caught after strengthening (first run missed)"
        rows.append(f"| {os.path.basename(d)} | {meta['property']} | {notes[:110]} | {c}: {status} | {cls} |")
table = "| seeded change | breaks | what it is | check result (quick tier) | violation class |\n|---|---|---|---|---|\n" + "\n".join(rows)
p = os.path.join(V, "DESIGN.md")
s = open(p).read()
begin, end = "<!-- seeded-table-begin -->", "<!-- seeded-table-end -->"
if begin in s:
    s = s[:s.index(begin) + len(begin)] + "\n" + table + "\n" + s[s.index(end):]
else:
    s += "\n## 12. Seeded changes (deliberately broken pion/ice) and which checks catch them\n\nEach change was produced by a fresh helper agent that saw only the property text and a scratch worktree, breaks the property while compiling and passing the pinned suite, and comes with a demonstration test that fails with the change and passes without; each was re-confirmed here (`bin/seedverify`) before being kept under `seeded/<name>/` (patch.diff, demo, notes.md, meta.json, result.json). `bin/seedcheck seeded/<name>` applies it to /repo, runs the property's quick check and restores /repo.\n\n" + begin + "\n" + table + "\n" + end + "\n"
open(p, "w").write(s)
print(len(rows), "rows")
